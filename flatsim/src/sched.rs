//! The two schedulers: baton-passing over blocking parties, and a simulated single-threaded
//! executor (with a discrete-event timer heap) over async tasks.

use crate::backend::{classify, Caught, Parties};
use crate::tape::St;
use crate::world::*;
use std::future::Future;
use std::panic::{catch_unwind, AssertUnwindSafe};
use std::pin::Pin;
use std::sync::atomic::{AtomicBool, Ordering};
use std::sync::Arc;
use std::task::{Context, Poll, Wake, Waker};

pub const STEP_CAP: u64 = 4_000_000;

#[derive(Clone, Copy, PartialEq, Eq, Debug)]
enum PState {
    Ready,
    Waiting,
    Done,
}

/// Run the blocking parties to completion under the seeded scheduler.
pub fn run_blocking(sh: &Shared, parties: &mut dyn Parties, n: usize) {
    let mut st = vec![PState::Ready; n];
    let mut last: usize = 0;
    let mut steps: u64 = 0;
    loop {
        // who may proceed?
        let mut enabled: Vec<usize> = Vec::with_capacity(n);
        {
            let w = lock(sh);
            for (id, s) in st.iter().enumerate() {
                match s {
                    PState::Done => {}
                    PState::Ready => enabled.push(id),
                    PState::Waiting => {
                        let ok = if w.abort {
                            true
                        } else if id as u8 == SENDER {
                            w.wplan.map(|p| w.write_enabled(p)).unwrap_or(true)
                        } else {
                            w.rplan.map(|p| w.read_enabled(p)).unwrap_or(true)
                        };
                        if ok {
                            enabled.push(id);
                        }
                    }
                }
            }
        }
        if enabled.is_empty() {
            if st.iter().all(|s| *s == PState::Done) {
                break;
            }
            let mut w = lock(sh);
            let d = format!("no party can proceed: states {:?}, pipe {} of {} bytes", st, w.pipe.buf.len(), w.pipe.cap);
            w.violate("", "deadlock", "deadlock", "scheduler", d);
            w.abort = true;
            continue;
        }
        let pick = if enabled.len() == 1 {
            enabled[0]
        } else {
            let mut w = lock(sh);
            let mode = w.knobs.sched_mode;
            let ne = enabled.len() as u32;
            let last_pos = enabled.iter().position(|&x| x == last);
            let k = w.dec.draw(St::Sched, ne, |r| match mode {
                1 => {
                    if r.chance(9, 10) {
                        0
                    } else {
                        r.below(ne)
                    }
                }
                2 => {
                    if r.chance(9, 10) {
                        ne - 1
                    } else {
                        r.below(ne)
                    }
                }
                3 => match last_pos {
                    Some(p) if r.chance(4, 5) => p as u32,
                    _ => r.below(ne),
                },
                _ => r.below(ne),
            });
            enabled[k as usize]
        };
        if pick != last {
            lock(sh).probe(P::sched_switch);
        }
        last = pick;
        steps += 1;
        if steps > STEP_CAP {
            let mut w = lock(sh);
            if !w.abort {
                w.violate("", "T1-termination", "hang:step-cap", "scheduler", format!("run exceeded {} scheduling steps", STEP_CAP));
                w.abort = true;
            }
        }
        let done = parties.resume(pick);
        st[pick] = if done { PState::Done } else { PState::Waiting };
        if done {
            lock(sh).ev(pick as u8, Op::Done, Out::None, 0, 0);
        }
    }
}

// ---- async executor -------------------------------------------------------------------------

struct Flag(AtomicBool);
impl Wake for Flag {
    fn wake(self: Arc<Self>) {
        self.0.store(true, Ordering::SeqCst);
    }
    fn wake_by_ref(self: &Arc<Self>) {
        self.0.store(true, Ordering::SeqCst);
    }
}

pub type Task = Pin<Box<dyn Future<Output = ()>>>;

/// Poll the tasks to completion under the seeded scheduler.  Returns per-task panic info.
pub fn run_async(sh: &Shared, mut tasks: Vec<Option<Task>>) -> Vec<Option<Caught>> {
    let n = tasks.len();
    let flags: Vec<Arc<Flag>> = (0..n).map(|_| Arc::new(Flag(AtomicBool::new(true)))).collect();
    let wakers: Vec<Waker> = flags.iter().map(|f| Waker::from(f.clone())).collect();
    let mut caught: Vec<Option<Caught>> = vec![None; n];
    let mut polls = vec![0u64; n];
    // polls of each task since the run was aborted: a task that keeps returning Pending without
    // touching the pipe (where the abort would unwind it) is dropped
    let mut abort_polls = vec![0u32; n];
    let mut steps: u64 = 0;
    let mut last = usize::MAX;
    loop {
        if tasks.iter().all(|t| t.is_none()) {
            break;
        }
        // fire due timers
        {
            let mut w = lock(sh);
            loop {
                let due = matches!(w.timers.peek(), Some(std::cmp::Reverse((at, _, _))) if *at <= w.now);
                if !due {
                    break;
                }
                let std::cmp::Reverse((_, seq, party)) = w.timers.pop().unwrap();
                if let Some(i) = w.timer_wakers.iter().position(|(s, _)| *s == seq) {
                    let (_, wk) = w.timer_wakers.swap_remove(i);
                    wk.wake();
                }
                w.probe(P::delayed_wake_fired);
                w.ev(party, Op::Timer, Out::Ready, 0, 0);
            }
        }
        let woken: Vec<usize> = (0..n).filter(|&i| tasks[i].is_some() && flags[i].0.load(Ordering::SeqCst)).collect();
        let asleep: Vec<usize> = (0..n).filter(|&i| tasks[i].is_some() && !flags[i].0.load(Ordering::SeqCst)).collect();
        let mut w = lock(sh);
        if woken.is_empty() {
            if let Some(std::cmp::Reverse((at, _, _))) = w.timers.peek().copied() {
                // nothing runnable: jump the clock to the next event
                w.now = at;
                continue;
            }
            if w.abort {
                // aborted run: force-poll the rest so they unwind through SimStop
                drop(w);
                for &i in &asleep {
                    flags[i].0.store(true, Ordering::SeqCst);
                }
                continue;
            }
            if w.silent_peer && asleep == [RECEIVER as usize] {
                if let Some(cap) = w.reader_parked_cap {
                    if cap > 0 {
                        // waiting for a silent peer with room in the buffer: legitimate; end quietly
                        if let Some(r) = w.recvs.last_mut() {
                            if matches!(r.outcome, RecvOutcome::InFlight) {
                                r.outcome = RecvOutcome::Waiting;
                            }
                        }
                        w.abort = true;
                        continue;
                    }
                    let d = "recv() is waiting on a read call with a zero-length buffer: the receive buffer is full, no progress is possible, and buffer exhaustion was not reported".to_string();
                    w.violate("", "O1-outcomes", "hang:read-with-no-room", "recv", d);
                    w.abort = true;
                    continue;
                }
            }
            let d = format!(
                "tasks {:?} are pending, none is woken and no timer is armed (pipe {} of {} bytes, writer_closed={}, reader_closed={})",
                asleep,
                w.pipe.buf.len(),
                w.pipe.cap,
                w.pipe.writer_closed,
                w.pipe.reader_closed
            );
            w.violate("", "lost-wakeup", "hang:lost-wakeup", "executor", d);
            w.abort = true;
            continue;
        }
        // choose: normally a woken task; in some runs occasionally a task that was not woken
        let spurious = w.knobs.spurious_polls && !asleep.is_empty() && !w.abort && w.dec.chance(St::Sched, 1, 8);
        let pick = if spurious {
            let k = w.dec.below(St::Sched, asleep.len() as u32) as usize;
            w.probe(P::spurious_poll);
            asleep[k]
        } else if woken.len() == 1 {
            woken[0]
        } else {
            let mode = w.knobs.sched_mode;
            let ne = woken.len() as u32;
            let last_pos = woken.iter().position(|&x| x == last);
            let k = w.dec.draw(St::Sched, ne, |r| match mode {
                1 => {
                    if r.chance(9, 10) {
                        0
                    } else {
                        r.below(ne)
                    }
                }
                2 => {
                    if r.chance(9, 10) {
                        ne - 1
                    } else {
                        r.below(ne)
                    }
                }
                3 => match last_pos {
                    Some(p) if r.chance(4, 5) => p as u32,
                    _ => r.below(ne),
                },
                _ => r.below(ne),
            });
            woken[k as usize]
        };
        if pick != last {
            w.probe(P::sched_switch);
        }
        last = pick;
        w.now += 1;
        w.cur_party = pick as u8;
        w.ev(pick as u8, Op::Poll, if spurious { Out::Spurious } else { Out::None }, 0, 0);
        steps += 1;
        polls[pick] += 1;
        if steps > STEP_CAP && !w.abort {
            w.violate("", "T1-termination", "hang:step-cap", "executor", format!("run exceeded {} polls", STEP_CAP));
            w.abort = true;
        }
        if w.abort {
            abort_polls[pick] += 1;
            if abort_polls[pick] > 3 {
                drop(w);
                tasks[pick] = None;
                lock(sh).ev(pick as u8, Op::Done, Out::Pending, 0, 0);
                continue;
            }
        }
        drop(w);
        flags[pick].0.store(false, Ordering::SeqCst);
        let mut cx = Context::from_waker(&wakers[pick]);
        let fut = tasks[pick].as_mut().unwrap();
        let r = catch_unwind(AssertUnwindSafe(|| fut.as_mut().poll(&mut cx)));
        match r {
            Ok(Poll::Ready(())) => {
                tasks[pick] = None;
                lock(sh).ev(pick as u8, Op::Done, Out::None, 0, 0);
            }
            Ok(Poll::Pending) => {}
            Err(p) => {
                caught[pick] = Some(classify(p));
                tasks[pick] = None;
                lock(sh).ev(pick as u8, Op::Done, Out::Panic, 0, 0);
            }
        }
    }
    caught
}
