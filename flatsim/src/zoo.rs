//! The message zoo: concrete `#[flat]` types compiled against the tree's own macro, each with a
//! hand-written adapter (abstract value -> real emplacers, deep read -> abstract value, builder
//! operations).  The adapters are the trusted part of the harness; the same `read` runs on the
//! sender's and the receiver's guard, so an adapter mistake cannot manufacture a difference.

#![allow(clippy::type_complexity)]

use crate::val::{Gen, Val};
use core::marker::PhantomData;
use flatty::{
    flat, flex,
    portable::{be, le, Bool},
    prelude::*,
    string, vec, Emplacer, Error, FlatString, FlatVec, FlexVec,
};

pub trait ZooMsg: Flat + FlatDefault + 'static {
    const NAME: &'static str;
    /// Full name (generic families add their parameters).
    fn name() -> String {
        Self::NAME.to_string()
    }
    /// Generate a value (container lengths bounded by `g.scale`).
    fn gen(g: &mut Gen) -> Val;
    /// Emplace `v` through the library's real emplacers.
    fn emplace_val<'b>(bytes: &'b mut [u8], v: &Val) -> Result<&'b mut Self, Error>;
    /// Deep read through the safe accessors.
    fn read(&self) -> Val;
    /// The documented default state (what `default_in_place` must produce), where the adapter
    /// states it; None = the planner takes the read-back as it is.
    fn default_val() -> Option<Val> {
        None
    }
    /// Builder operations on a live value (push / pop / truncate / element writes); decisions
    /// come from `g`.  Default: none.
    fn tweak(&mut self, _g: &mut Gen) {}
}

/// Uniform emplacer: any zoo type from an abstract value.
pub struct ValEmp<'a, M: ?Sized>(pub &'a Val, pub PhantomData<fn() -> *const M>);
pub fn emp<M: ZooMsg + ?Sized>(v: &Val) -> ValEmp<'_, M> {
    ValEmp(v, PhantomData)
}
unsafe impl<'a, M: ZooMsg + ?Sized> Emplacer<M> for ValEmp<'a, M> {
    unsafe fn emplace_unchecked(self, bytes: &mut [u8]) -> Result<&mut M, Error> {
        M::emplace_val(bytes, self.0)
    }
}

// ---------------------------------------------------------------------------------------------
// validity of what a guard hands out, checked on raw bytes while reading (C10: "any message it
// hands out is a valid value"): strings are UTF-8, Bool bytes are 0/1, C-like tags in range,
// len <= capacity.  A finding is parked in a thread-local and picked up by `take_invalid`.

thread_local! {
    static INVALID: core::cell::Cell<Option<&'static str>> = const { core::cell::Cell::new(None) };
}
pub fn note_invalid(what: &'static str) {
    INVALID.with(|c| {
        if c.get().is_none() {
            c.set(Some(what))
        }
    });
}
pub fn take_invalid() -> Option<&'static str> {
    INVALID.with(|c| c.take())
}
pub fn rd_bool(b: &Bool) -> Val {
    let raw = unsafe { *(b as *const Bool as *const u8) };
    if raw > 1 {
        note_invalid("Bool byte is neither 0 nor 1");
        return Val::B(false);
    }
    Val::B(raw == 1)
}
pub fn rd_str<L: Flat + string::Length>(s: &FlatString<L>) -> Val {
    if s.len() > s.capacity() {
        note_invalid("string len > capacity");
        return Val::S(String::new());
    }
    let b: &[u8] = s.as_vec().as_slice();
    match core::str::from_utf8(b) {
        Ok(x) => Val::S(x.to_string()),
        Err(_) => {
            note_invalid("string is not valid UTF-8");
            Val::S(String::from_utf8_lossy(b).into_owned())
        }
    }
}
pub fn rd_vec<T: Flat + Sized, L: Flat + vec::Length>(v: &FlatVec<T, L>, f: impl Fn(&T) -> Val) -> Val {
    if v.len() > v.capacity() {
        note_invalid("vector len > capacity");
        return Val::L(vec![]);
    }
    Val::L(v.iter().map(f).collect())
}

// ---------------------------------------------------------------------------------------------
// generic builder ops on containers

/// Raw tag of an enum value (first `tag_size` bytes, native order) is below `variants`.  The deep
/// read asks this before it matches on the value: `as_ref()` on an out-of-range tag is undefined
/// behaviour in the harness process (a broken validator may hand such a value out).
pub fn enum_tag_ok<M: Flat + ?Sized>(m: &M, tag_size: usize, variants: u64) -> bool {
    let b = m.as_bytes();
    if b.len() < tag_size {
        note_invalid("enum value shorter than its tag");
        return false;
    }
    let mut t = 0u64;
    for (i, x) in b[..tag_size].iter().enumerate() {
        t |= (*x as u64) << (8 * if cfg!(target_endian = "big") { tag_size - 1 - i } else { i });
    }
    if t >= variants {
        note_invalid("enum tag out of range");
        return false;
    }
    true
}

thread_local! {
    static REFUSED: core::cell::Cell<bool> = const { core::cell::Cell::new(false) };
}
/// A builder operation returned Err (the value may legitimately be in any state afterwards).
pub fn note_refused() {
    REFUSED.with(|r| r.set(true));
}
pub fn take_refused() -> bool {
    REFUSED.with(|r| r.replace(false))
}

pub fn tweak_vec<T: Flat + Sized, L: Flat + vec::Length>(v: &mut FlatVec<T, L>, g: &mut Gen, mut mk: impl FnMut(&mut Gen) -> T) {
    let n = g.pick(3) as usize;
    for _ in 0..n {
        match g.weighted(&[4, 2, 1, 1, 2]) {
            0 => {
                if v.push(mk(g)).is_err() {
                    note_refused();
                }
            }
            1 => {
                let _ = v.pop();
            }
            2 => {
                let k = g.pick(v.len() as u32 + 2) as usize;
                v.truncate(k);
            }
            3 => v.clear(),
            _ => {
                if !v.is_empty() {
                    let i = g.pick(v.len() as u32) as usize;
                    v[i] = mk(g);
                }
            }
        }
    }
}

pub fn tweak_str<L: Flat + string::Length>(s: &mut FlatString<L>, g: &mut Gen) {
    match g.weighted(&[3, 2, 1]) {
        0 => {
            if s.push_str(&g.string(3)).is_err() {
                note_refused();
            }
        }
        1 => {
            if s.push('ж').is_err() {
                note_refused();
            }
        }
        _ => s.clear(),
    }
}

pub fn tweak_flex<T: ZooMsg + ?Sized, L: Flat + vec::Length>(v: &mut FlexVec<T, L>, g: &mut Gen) {
    let n = g.pick(3) as usize;
    for _ in 0..n {
        match g.weighted(&[4, 2, 1, 1, 1, 2]) {
            // A refused FlexVec::push leaves the vector invalid on the pinned tree (it has already
            // sealed the last item; C13 territory) and any further safe call on it may then read
            // or write out of bounds: stop the history there – the planner's validity check
            // discards it anyway and counts the probe.
            0 => {
                let item = T::gen(&mut Gen::new(g.d, g.st, 2));
                if v.push(emp::<T>(&item)).is_err() {
                    note_refused();
                    return;
                }
            }
            1 => {
                if v.push_default().is_err() {
                    note_refused();
                    return;
                }
            }
            2 => {
                let _ = v.pop();
            }
            3 => {
                let k = g.pick(4) as usize;
                v.truncate(k);
            }
            4 => v.clear(),
            _ => {
                // any item: a non-last item lives in a slot of fixed extent and may shrink or
                // grow inside it
                let n = v.iter().count() as u32;
                if n > 0 {
                    let i = if g.chance(1, 2) { n - 1 } else { g.pick(n) } as usize;
                    if let Some(x) = v.iter_mut().nth(i) {
                        x.tweak(g);
                    }
                }
            }
        }
    }
}

pub fn read_flex<T: ZooMsg + ?Sized, L: Flat + vec::Length>(v: &FlexVec<T, L>) -> Val {
    Val::L(v.iter().map(|x| x.read()).collect())
}
pub fn emplace_flex<'b, T: ZooMsg + ?Sized, L: Flat + vec::Length>(bytes: &'b mut [u8], v: &Val) -> Result<&'b mut FlexVec<T, L>, Error> {
    FlexVec::<T, L>::new_in_place(bytes, flex::FromIterator::new(v.list().iter().map(|x| emp::<T>(x))))
}
pub fn gen_flex<T: ZooMsg + ?Sized>(g: &mut Gen) -> Val {
    let bm = crate::val::boundary_mode();
    let n = if bm != 0 { 1 + g.pick(2) as usize } else { g.len().min(6) };
    // items are usually tiny; with few items they may be as large as the scale allows (offsets at
    // the maximum of the offset type)
    let inner_scale = if bm != 0 || (n <= 2 && g.chance(1, 3)) { g.scale } else { g.scale.min(4) };
    Val::L((0..n).map(|_| T::gen(&mut Gen::new(g.d, g.st, inner_scale))).collect())
}

// ---------------------------------------------------------------------------------------------
// T0: the repository's own test message

#[flat(sized = false, default = true)]
pub enum TestMsg {
    #[default]
    A,
    B(i32),
    C(FlatVec<i32, u16>),
}

impl ZooMsg for TestMsg {
    const NAME: &'static str = "TestMsg";
    fn default_val() -> Option<Val> {
        Some(Val::V(0, vec![]))
    }
    fn gen(g: &mut Gen) -> Val {
        match g.weighted(&[1, 2, 4]) {
            0 => Val::V(0, vec![]),
            1 => Val::V(1, vec![Val::I(g.int(32, true))]),
            _ => {
                let n = g.len();
                Val::V(2, vec![Val::L((0..n).map(|_| Val::I(g.int(32, true))).collect())])
            }
        }
    }
    fn emplace_val<'b>(bytes: &'b mut [u8], v: &Val) -> Result<&'b mut Self, Error> {
        match v.tag() {
            0 => Self::new_in_place(bytes, TestMsgInitA),
            1 => Self::new_in_place(bytes, TestMsgInitB(v.field(0).int() as i32)),
            _ => Self::new_in_place(bytes, TestMsgInitC(vec::FromIterator(v.field(0).list().iter().map(|x| x.int() as i32)))),
        }
    }
    fn read(&self) -> Val {
        if !enum_tag_ok(self, 1, 3) {
            return Val::V(0, vec![]);
        }
        match self.as_ref() {
            TestMsgRef::A => Val::V(0, vec![]),
            TestMsgRef::B(x) => Val::V(1, vec![Val::I(*x as i128)]),
            TestMsgRef::C(v) => Val::V(2, vec![rd_vec(v, |x| Val::I(*x as i128))]),
        }
    }
    fn tweak(&mut self, g: &mut Gen) {
        match self.as_mut() {
            TestMsgMut::A => {}
            TestMsgMut::B(x) => *x = g.int(32, true) as i32,
            TestMsgMut::C(v) => tweak_vec(v, g, |g| g.int(32, true) as i32),
        }
    }
}

// ---------------------------------------------------------------------------------------------
// T1: unsized struct whose size() includes trailing padding

#[flat(sized = false, default = true)]
pub struct PadTail {
    pub a: u32,
    pub v: FlatVec<u8, u8>,
}

impl ZooMsg for PadTail {
    const NAME: &'static str = "PadTail";
    fn gen(g: &mut Gen) -> Val {
        let a = g.int(32, false);
        let n = g.len();
        Val::R(vec![Val::I(a), Val::L((0..n).map(|_| Val::I(g.int(8, false))).collect())])
    }
    fn emplace_val<'b>(bytes: &'b mut [u8], v: &Val) -> Result<&'b mut Self, Error> {
        Self::new_in_place(
            bytes,
            PadTailInit { a: v.field(0).int() as u32, v: vec::FromIterator(v.field(1).list().iter().map(|x| x.int() as u8)) },
        )
    }
    fn read(&self) -> Val {
        Val::R(vec![Val::I(self.a as i128), rd_vec(&self.v, |x| Val::I(*x as i128))])
    }
    fn tweak(&mut self, g: &mut Gen) {
        if g.chance(1, 3) {
            self.a = g.int(32, false) as u32;
        }
        tweak_vec(&mut self.v, g, |g| g.int(8, false) as u8);
    }
}

// ---------------------------------------------------------------------------------------------
// T2: the repository's UnsizedStruct shape (u8, u16, FlatVec<u64, u32>)

#[flat(sized = false, default = true)]
pub struct Wide {
    pub a: u8,
    pub b: u16,
    pub c: FlatVec<u64, u32>,
}

impl ZooMsg for Wide {
    const NAME: &'static str = "Wide";
    fn gen(g: &mut Gen) -> Val {
        let a = g.int(8, false);
        let b = g.int(16, false);
        let n = g.len();
        Val::R(vec![Val::I(a), Val::I(b), Val::L((0..n).map(|_| Val::I(g.int(64, false))).collect())])
    }
    fn emplace_val<'b>(bytes: &'b mut [u8], v: &Val) -> Result<&'b mut Self, Error> {
        Self::new_in_place(
            bytes,
            WideInit {
                a: v.field(0).int() as u8,
                b: v.field(1).int() as u16,
                c: vec::FromIterator(v.field(2).list().iter().map(|x| x.int() as u64)),
            },
        )
    }
    fn read(&self) -> Val {
        Val::R(vec![
            Val::I(self.a as i128),
            Val::I(self.b as i128),
            rd_vec(&self.c, |x| Val::I(*x as i128)),
        ])
    }
    fn tweak(&mut self, g: &mut Gen) {
        if g.chance(1, 3) {
            self.b = g.int(16, false) as u16;
        }
        tweak_vec(&mut self.c, g, |g| g.int(64, false) as u64);
    }
}

// ---------------------------------------------------------------------------------------------
// T3: unsized enum, u16 tag, Bool (content-constrained) and a FlatString tail

#[flat(sized = false, default = true, tag_type = "u16")]
pub enum TagStr {
    #[default]
    N,
    F(Bool, u8),
    S { k: u32, s: FlatString<u16> },
}

impl ZooMsg for TagStr {
    const NAME: &'static str = "TagStr";
    fn default_val() -> Option<Val> {
        Some(Val::V(0, vec![]))
    }
    fn gen(g: &mut Gen) -> Val {
        match g.weighted(&[1, 2, 4]) {
            0 => Val::V(0, vec![]),
            1 => Val::V(1, vec![Val::B(g.boolean()), Val::I(g.int(8, false))]),
            _ => {
                let k = g.int(32, false);
                let n = g.len();
                Val::V(2, vec![Val::I(k), Val::S(g.string(n))])
            }
        }
    }
    fn emplace_val<'b>(bytes: &'b mut [u8], v: &Val) -> Result<&'b mut Self, Error> {
        match v.tag() {
            0 => Self::new_in_place(bytes, TagStrInitN),
            1 => Self::new_in_place(bytes, TagStrInitF(Bool::from(v.field(0).boolean()), v.field(1).int() as u8)),
            _ => Self::new_in_place(bytes, TagStrInitS { k: v.field(0).int() as u32, s: string::FromStr(v.field(1).str()) }),
        }
    }
    fn read(&self) -> Val {
        if !enum_tag_ok(self, 2, 3) {
            return Val::V(0, vec![]);
        }
        match self.as_ref() {
            TagStrRef::N => Val::V(0, vec![]),
            TagStrRef::F(b, x) => Val::V(1, vec![rd_bool(b), Val::I(*x as i128)]),
            TagStrRef::S { k, s } => Val::V(2, vec![Val::I(*k as i128), rd_str(s)]),
        }
    }
    fn tweak(&mut self, g: &mut Gen) {
        match self.as_mut() {
            TagStrMut::N => {}
            TagStrMut::F(b, x) => {
                *b = !*b;
                *x = g.int(8, false) as u8;
            }
            TagStrMut::S { k, s } => {
                if g.chance(1, 3) {
                    *k = g.int(32, false) as u32;
                }
                tweak_str(s, g);
            }
        }
    }
}

// ---------------------------------------------------------------------------------------------
// T4..T6: top-level containers

pub type VecU8 = FlatVec<u8, u32>;
impl ZooMsg for VecU8 {
    const NAME: &'static str = "FlatVec<u8,u32>";
    fn gen(g: &mut Gen) -> Val {
        let n = g.len();
        Val::L((0..n).map(|_| Val::I(g.int(8, false))).collect())
    }
    fn emplace_val<'b>(bytes: &'b mut [u8], v: &Val) -> Result<&'b mut Self, Error> {
        // short lists go through the array emplacers (`flat_vec![..]`), longer ones through the iterator one
        let l = v.list();
        match l.len() {
            0 => Self::new_in_place(bytes, flatty::flat_vec![]),
            1 => Self::new_in_place(bytes, flatty::flat_vec![l[0].int() as u8]),
            2 => Self::new_in_place(bytes, flatty::flat_vec![l[0].int() as u8, l[1].int() as u8]),
            _ => Self::new_in_place(bytes, vec::FromIterator(l.iter().map(|x| x.int() as u8))),
        }
    }
    fn read(&self) -> Val {
        rd_vec(self, |x| Val::I(*x as i128))
    }
    fn tweak(&mut self, g: &mut Gen) {
        tweak_vec(self, g, |g| g.int(8, false) as u8);
    }
}

pub type VecA3 = FlatVec<[u8; 3], u16>;
impl ZooMsg for VecA3 {
    const NAME: &'static str = "FlatVec<[u8;3],u16>";
    fn gen(g: &mut Gen) -> Val {
        let n = g.len();
        Val::L((0..n).map(|_| Val::R((0..3).map(|_| Val::I(g.int(8, false))).collect())).collect())
    }
    fn emplace_val<'b>(bytes: &'b mut [u8], v: &Val) -> Result<&'b mut Self, Error> {
        Self::new_in_place(
            bytes,
            vec::FromIterator(v.list().iter().map(|x| [x.field(0).int() as u8, x.field(1).int() as u8, x.field(2).int() as u8])),
        )
    }
    fn read(&self) -> Val {
        rd_vec(self, |a| Val::R(a.iter().map(|x| Val::I(*x as i128)).collect()))
    }
    fn tweak(&mut self, g: &mut Gen) {
        tweak_vec(self, g, |g| [g.int(8, false) as u8, 7, g.int(8, false) as u8]);
    }
}

pub type Str32 = FlatString<u32>;
impl ZooMsg for Str32 {
    const NAME: &'static str = "FlatString<u32>";
    fn gen(g: &mut Gen) -> Val {
        let n = g.len();
        Val::S(g.string(n))
    }
    fn emplace_val<'b>(bytes: &'b mut [u8], v: &Val) -> Result<&'b mut Self, Error> {
        Self::new_in_place(bytes, string::FromStr(v.str()))
    }
    fn read(&self) -> Val {
        rd_str(self)
    }
    fn tweak(&mut self, g: &mut Gen) {
        tweak_str(self, g);
    }
}

// nested-only leaf types -----------------------------------------------------------------------

impl ZooMsg for u8 {
    const NAME: &'static str = "u8";
    fn gen(g: &mut Gen) -> Val {
        Val::I(g.int(8, false))
    }
    fn emplace_val<'b>(bytes: &'b mut [u8], v: &Val) -> Result<&'b mut Self, Error> {
        Self::new_in_place(bytes, v.int() as u8)
    }
    fn read(&self) -> Val {
        Val::I(*self as i128)
    }
    fn tweak(&mut self, g: &mut Gen) {
        *self = g.int(8, false) as u8;
    }
}

pub type VecI32 = FlatVec<i32, u16>;
impl ZooMsg for VecI32 {
    const NAME: &'static str = "FlatVec<i32,u16>";
    fn gen(g: &mut Gen) -> Val {
        let n = g.len();
        Val::L((0..n).map(|_| Val::I(g.int(32, true))).collect())
    }
    fn emplace_val<'b>(bytes: &'b mut [u8], v: &Val) -> Result<&'b mut Self, Error> {
        let l = v.list();
        match l.len() {
            0 => Self::new_in_place(bytes, flatty::flat_vec![]),
            1 => Self::new_in_place(bytes, flatty::flat_vec![l[0].int() as i32]),
            3 => Self::new_in_place(bytes, flatty::flat_vec![l[0].int() as i32, l[1].int() as i32, l[2].int() as i32]),
            _ => Self::new_in_place(bytes, vec::FromIterator(l.iter().map(|x| x.int() as i32))),
        }
    }
    fn read(&self) -> Val {
        rd_vec(self, |x| Val::I(*x as i128))
    }
    fn tweak(&mut self, g: &mut Gen) {
        tweak_vec(self, g, |g| g.int(32, true) as i32);
    }
}

pub type Str8 = FlatString<u8>;
impl ZooMsg for Str8 {
    const NAME: &'static str = "FlatString<u8>";
    fn gen(g: &mut Gen) -> Val {
        let n = g.len();
        Val::S(g.string(n))
    }
    fn emplace_val<'b>(bytes: &'b mut [u8], v: &Val) -> Result<&'b mut Self, Error> {
        Self::new_in_place(bytes, string::FromStr(v.str()))
    }
    fn read(&self) -> Val {
        rd_str(self)
    }
    fn tweak(&mut self, g: &mut Gen) {
        tweak_str(self, g);
    }
}

// ---------------------------------------------------------------------------------------------
// T7..T9: top-level FlexVec

pub type FlexB = FlexVec<u8, u8>;
impl ZooMsg for FlexB {
    const NAME: &'static str = "FlexVec<u8,u8>";
    fn gen(g: &mut Gen) -> Val {
        gen_flex::<u8>(g)
    }
    fn emplace_val<'b>(bytes: &'b mut [u8], v: &Val) -> Result<&'b mut Self, Error> {
        emplace_flex::<u8, u8>(bytes, v)
    }
    fn read(&self) -> Val {
        read_flex(self)
    }
    fn tweak(&mut self, g: &mut Gen) {
        tweak_flex(self, g);
    }
}

pub type FlexV = FlexVec<VecI32, u16>;
impl ZooMsg for FlexV {
    const NAME: &'static str = "FlexVec<FlatVec<i32,u16>,u16>";
    fn gen(g: &mut Gen) -> Val {
        gen_flex::<VecI32>(g)
    }
    fn emplace_val<'b>(bytes: &'b mut [u8], v: &Val) -> Result<&'b mut Self, Error> {
        emplace_flex::<VecI32, u16>(bytes, v)
    }
    fn read(&self) -> Val {
        read_flex(self)
    }
    fn tweak(&mut self, g: &mut Gen) {
        tweak_flex(self, g);
    }
}

pub type FlexE = FlexVec<TagStr, u32>;
impl ZooMsg for FlexE {
    const NAME: &'static str = "FlexVec<TagStr,u32>";
    fn gen(g: &mut Gen) -> Val {
        gen_flex::<TagStr>(g)
    }
    fn emplace_val<'b>(bytes: &'b mut [u8], v: &Val) -> Result<&'b mut Self, Error> {
        emplace_flex::<TagStr, u32>(bytes, v)
    }
    fn read(&self) -> Val {
        read_flex(self)
    }
    fn tweak(&mut self, g: &mut Gen) {
        tweak_flex(self, g);
    }
}

// ---------------------------------------------------------------------------------------------
// T10: unsized struct with a FlexVec<FlatString> tail

pub type FlexS = FlexVec<Str8, u16>;
impl ZooMsg for FlexS {
    const NAME: &'static str = "FlexVec<FlatString<u8>,u16>";
    fn gen(g: &mut Gen) -> Val {
        gen_flex::<Str8>(g)
    }
    fn emplace_val<'b>(bytes: &'b mut [u8], v: &Val) -> Result<&'b mut Self, Error> {
        emplace_flex::<Str8, u16>(bytes, v)
    }
    fn read(&self) -> Val {
        read_flex(self)
    }
    fn tweak(&mut self, g: &mut Gen) {
        tweak_flex(self, g);
    }
}

#[flat(sized = false, default = true)]
pub struct FlexTail {
    pub id: u16,
    pub items: FlexS,
}

impl ZooMsg for FlexTail {
    const NAME: &'static str = "FlexTail";
    fn gen(g: &mut Gen) -> Val {
        let id = g.int(16, false);
        Val::R(vec![Val::I(id), FlexS::gen(g)])
    }
    fn emplace_val<'b>(bytes: &'b mut [u8], v: &Val) -> Result<&'b mut Self, Error> {
        Self::new_in_place(bytes, FlexTailInit { id: v.field(0).int() as u16, items: emp::<FlexS>(v.field(1)) })
    }
    fn read(&self) -> Val {
        Val::R(vec![Val::I(self.id as i128), self.items.read()])
    }
    fn tweak(&mut self, g: &mut Gen) {
        if g.chance(1, 3) {
            self.id = g.int(16, false) as u16;
        }
        self.items.tweak(g);
    }
}

// ---------------------------------------------------------------------------------------------
// T11, T12: portable types (alignment 1, fixed byte order)

#[flat(sized = false, portable = true, default = true)]
pub struct PStruct {
    pub a: le::U16,
    pub b: FlatVec<be::U32, le::U16>,
}

impl ZooMsg for PStruct {
    const NAME: &'static str = "PStruct";
    fn gen(g: &mut Gen) -> Val {
        let a = g.int(16, false);
        let n = g.len();
        Val::R(vec![Val::I(a), Val::L((0..n).map(|_| Val::I(g.int(32, false))).collect())])
    }
    fn emplace_val<'b>(bytes: &'b mut [u8], v: &Val) -> Result<&'b mut Self, Error> {
        Self::new_in_place(
            bytes,
            PStructInit {
                a: le::U16::from(v.field(0).int() as u16),
                b: vec::FromIterator(v.field(1).list().iter().map(|x| be::U32::from(x.int() as u32))),
            },
        )
    }
    fn read(&self) -> Val {
        Val::R(vec![
            Val::I(u16::from(self.a) as i128),
            rd_vec(&self.b, |x| Val::I(u32::from(*x) as i128)),
        ])
    }
    fn tweak(&mut self, g: &mut Gen) {
        if g.chance(1, 3) {
            self.a = le::U16::from(g.int(16, false) as u16);
        }
        tweak_vec(&mut self.b, g, |g| be::U32::from(g.int(32, false) as u32));
    }
}

#[flat(sized = false, portable = true, default = true)]
pub enum PEnum {
    #[default]
    A,
    B(le::F32, Bool),
    C(PStruct),
}

impl ZooMsg for PEnum {
    const NAME: &'static str = "PEnum";
    fn default_val() -> Option<Val> {
        Some(Val::V(0, vec![]))
    }
    fn gen(g: &mut Gen) -> Val {
        match g.weighted(&[1, 2, 4]) {
            0 => Val::V(0, vec![]),
            1 => Val::V(1, vec![Val::F(g.f32bits()), Val::B(g.boolean())]),
            _ => Val::V(2, vec![PStruct::gen(g)]),
        }
    }
    fn emplace_val<'b>(bytes: &'b mut [u8], v: &Val) -> Result<&'b mut Self, Error> {
        match v.tag() {
            0 => Self::new_in_place(bytes, PEnumInitA),
            1 => Self::new_in_place(
                bytes,
                PEnumInitB(le::F32::from(f32::from_bits(v.field(0).bits() as u32)), Bool::from(v.field(1).boolean())),
            ),
            _ => Self::new_in_place(bytes, PEnumInitC(emp::<PStruct>(v.field(0)))),
        }
    }
    fn read(&self) -> Val {
        if !enum_tag_ok(self, 1, 3) {
            return Val::V(0, vec![]);
        }
        match self.as_ref() {
            PEnumRef::A => Val::V(0, vec![]),
            PEnumRef::B(f, b) => Val::V(1, vec![Val::F(f32::from(*f).to_bits() as u64), rd_bool(b)]),
            PEnumRef::C(s) => Val::V(2, vec![s.read()]),
        }
    }
    fn tweak(&mut self, g: &mut Gen) {
        match self.as_mut() {
            PEnumMut::A => {}
            PEnumMut::B(_, b) => *b = !*b,
            PEnumMut::C(s) => s.tweak(g),
        }
    }
}

// ---------------------------------------------------------------------------------------------
// T13, T14: sized, content-constrained types

#[flat(default = true)]
#[derive(Clone, Copy, PartialEq, Eq, Debug)]
pub enum Mode {
    #[default]
    X,
    Y,
    Z,
}

#[flat(default = true)]
pub struct Fixed {
    pub flag: Bool,
    pub mode: Mode,
    pub x: i16,
    pub y: f64,
}

impl ZooMsg for Fixed {
    const NAME: &'static str = "Fixed";
    fn gen(g: &mut Gen) -> Val {
        Val::R(vec![Val::B(g.boolean()), Val::T(g.pick(3)), Val::I(g.int(16, true)), Val::F(g.f64bits())])
    }
    fn emplace_val<'b>(bytes: &'b mut [u8], v: &Val) -> Result<&'b mut Self, Error> {
        Self::new_in_place(
            bytes,
            Fixed {
                flag: Bool::from(v.field(0).boolean()),
                mode: match v.field(1).tag() {
                    0 => Mode::X,
                    1 => Mode::Y,
                    _ => Mode::Z,
                },
                x: v.field(2).int() as i16,
                y: f64::from_bits(v.field(3).bits()),
            },
        )
    }
    fn read(&self) -> Val {
        let raw_mode = unsafe { *(&self.mode as *const Mode as *const u8) };
        if raw_mode > 2 {
            note_invalid("C-like enum tag out of range");
            return Val::R(vec![]);
        }
        Val::R(vec![
            rd_bool(&self.flag),
            Val::T(self.mode as u32),
            Val::I(self.x as i128),
            Val::F(self.y.to_bits()),
        ])
    }
    fn tweak(&mut self, g: &mut Gen) {
        self.flag = !self.flag;
        self.x = g.int(16, true) as i16;
    }
}

#[flat(default = true, tag_type = "u32")]
pub enum FixedE {
    #[default]
    A,
    B(u16, u8),
    C { a: Bool, b: u64 },
}

impl ZooMsg for FixedE {
    const NAME: &'static str = "FixedE";
    fn default_val() -> Option<Val> {
        Some(Val::V(0, vec![]))
    }
    fn gen(g: &mut Gen) -> Val {
        match g.weighted(&[1, 2, 2]) {
            0 => Val::V(0, vec![]),
            1 => Val::V(1, vec![Val::I(g.int(16, false)), Val::I(g.int(8, false))]),
            _ => Val::V(2, vec![Val::B(g.boolean()), Val::I(g.int(64, false))]),
        }
    }
    fn emplace_val<'b>(bytes: &'b mut [u8], v: &Val) -> Result<&'b mut Self, Error> {
        let x = match v.tag() {
            0 => FixedE::A,
            1 => FixedE::B(v.field(0).int() as u16, v.field(1).int() as u8),
            _ => FixedE::C { a: Bool::from(v.field(0).boolean()), b: v.field(1).int() as u64 },
        };
        Self::new_in_place(bytes, x)
    }
    fn read(&self) -> Val {
        if !enum_tag_ok(self, 4, 3) {
            return Val::V(0, vec![]);
        }
        match self {
            FixedE::A => Val::V(0, vec![]),
            FixedE::B(x, y) => Val::V(1, vec![Val::I(*x as i128), Val::I(*y as i128)]),
            FixedE::C { a, b } => Val::V(2, vec![rd_bool(a), Val::I(*b as i128)]),
        }
    }
    fn tweak(&mut self, g: &mut Gen) {
        if let FixedE::B(x, _) = self {
            *x = g.int(16, false) as u16;
        }
    }
}

// ---------------------------------------------------------------------------------------------
// T15: nesting – unsized enum whose variants hold unsized structs

#[flat(sized = false, default = true)]
pub enum Nest {
    #[default]
    E,
    P(PadTail),
    W { n: u8, w: Wide },
}

impl ZooMsg for Nest {
    const NAME: &'static str = "Nest";
    fn default_val() -> Option<Val> {
        Some(Val::V(0, vec![]))
    }
    fn gen(g: &mut Gen) -> Val {
        match g.weighted(&[1, 3, 3]) {
            0 => Val::V(0, vec![]),
            1 => Val::V(1, vec![PadTail::gen(g)]),
            _ => Val::V(2, vec![Val::I(g.int(8, false)), Wide::gen(g)]),
        }
    }
    fn emplace_val<'b>(bytes: &'b mut [u8], v: &Val) -> Result<&'b mut Self, Error> {
        match v.tag() {
            0 => Self::new_in_place(bytes, NestInitE),
            1 => Self::new_in_place(bytes, NestInitP(emp::<PadTail>(v.field(0)))),
            _ => Self::new_in_place(bytes, NestInitW { n: v.field(0).int() as u8, w: emp::<Wide>(v.field(1)) }),
        }
    }
    fn read(&self) -> Val {
        if !enum_tag_ok(self, 1, 3) {
            return Val::V(0, vec![]);
        }
        match self.as_ref() {
            NestRef::E => Val::V(0, vec![]),
            NestRef::P(p) => Val::V(1, vec![p.read()]),
            NestRef::W { n, w } => Val::V(2, vec![Val::I(*n as i128), w.read()]),
        }
    }
    fn tweak(&mut self, g: &mut Gen) {
        match self.as_mut() {
            NestMut::E => {}
            NestMut::P(p) => p.tweak(g),
            NestMut::W { n, w } => {
                *n = g.int(8, false) as u8;
                w.tweak(g);
            }
        }
    }
}

// ---------------------------------------------------------------------------------------------
// T17: vector of content-constrained items

pub type BoolVec = FlatVec<Bool, u8>;
impl ZooMsg for BoolVec {
    const NAME: &'static str = "FlatVec<Bool,u8>";
    fn gen(g: &mut Gen) -> Val {
        let n = g.len();
        Val::L((0..n).map(|_| Val::B(g.boolean())).collect())
    }
    fn emplace_val<'b>(bytes: &'b mut [u8], v: &Val) -> Result<&'b mut Self, Error> {
        Self::new_in_place(bytes, vec::FromIterator(v.list().iter().map(|x| Bool::from(x.boolean()))))
    }
    fn read(&self) -> Val {
        rd_vec(self, rd_bool)
    }
    fn tweak(&mut self, g: &mut Gen) {
        tweak_vec(self, g, |g| Bool::from(g.boolean()));
    }
}

// T18: padding in front of a middle field, low-aligned last field; sized and unsized variants

#[flat(sized = false, default = true)]
pub enum Pad3 {
    #[default]
    Z,
    S(u8, u32, u8),
    T { a: u8, b: u64, c: Bool, v: FlatVec<u8, u16> },
    U(u16, Mode, u8),
}

impl ZooMsg for Pad3 {
    const NAME: &'static str = "Pad3";
    fn default_val() -> Option<Val> {
        Some(Val::V(0, vec![]))
    }
    fn gen(g: &mut Gen) -> Val {
        match g.weighted(&[1, 3, 3, 2]) {
            0 => Val::V(0, vec![]),
            1 => Val::V(1, vec![Val::I(g.int(8, false)), Val::I(g.int(32, false)), Val::I(g.int(8, false))]),
            2 => {
                let a = g.int(8, false);
                let b = g.int(64, false);
                let c = g.boolean();
                let n = g.len();
                Val::V(2, vec![Val::I(a), Val::I(b), Val::B(c), Val::L((0..n).map(|_| Val::I(g.int(8, false))).collect())])
            }
            _ => Val::V(3, vec![Val::I(g.int(16, false)), Val::T(g.pick(3)), Val::I(g.int(8, false))]),
        }
    }
    fn emplace_val<'b>(bytes: &'b mut [u8], v: &Val) -> Result<&'b mut Self, Error> {
        match v.tag() {
            0 => Self::new_in_place(bytes, Pad3InitZ),
            1 => Self::new_in_place(bytes, Pad3InitS(v.field(0).int() as u8, v.field(1).int() as u32, v.field(2).int() as u8)),
            2 => Self::new_in_place(
                bytes,
                Pad3InitT {
                    a: v.field(0).int() as u8,
                    b: v.field(1).int() as u64,
                    c: Bool::from(v.field(2).boolean()),
                    v: vec::FromIterator(v.field(3).list().iter().map(|x| x.int() as u8)),
                },
            ),
            _ => Self::new_in_place(
                bytes,
                Pad3InitU(
                    v.field(0).int() as u16,
                    match v.field(1).tag() {
                        0 => Mode::X,
                        1 => Mode::Y,
                        _ => Mode::Z,
                    },
                    v.field(2).int() as u8,
                ),
            ),
        }
    }
    fn read(&self) -> Val {
        if !enum_tag_ok(self, 1, 4) {
            return Val::V(0, vec![]);
        }
        match self.as_ref() {
            Pad3Ref::Z => Val::V(0, vec![]),
            Pad3Ref::S(a, b, c) => Val::V(1, vec![Val::I(*a as i128), Val::I(*b as i128), Val::I(*c as i128)]),
            Pad3Ref::T { a, b, c, v } => Val::V(2, vec![Val::I(*a as i128), Val::I(*b as i128), rd_bool(c), rd_vec(v, |x| Val::I(*x as i128))]),
            Pad3Ref::U(a, m, c) => {
                let raw = unsafe { *(m as *const Mode as *const u8) };
                if raw > 2 {
                    note_invalid("C-like enum tag out of range");
                    return Val::V(3, vec![]);
                }
                Val::V(3, vec![Val::I(*a as i128), Val::T(*m as u32), Val::I(*c as i128)])
            }
        }
    }
    fn tweak(&mut self, g: &mut Gen) {
        match self.as_mut() {
            Pad3Mut::Z => {}
            Pad3Mut::S(a, _, c) => {
                *a = g.int(8, false) as u8;
                *c = g.int(8, false) as u8;
            }
            Pad3Mut::T { c, v, .. } => {
                *c = !*c;
                tweak_vec(v, g, |g| g.int(8, false) as u8);
            }
            Pad3Mut::U(a, _, _) => *a = g.int(16, false) as u16,
        }
    }
}

// ---------------------------------------------------------------------------------------------
// T19: arrays of content-constrained items (in a field walk and as vector items)

pub fn rd_mode(m: &Mode) -> Val {
    let raw = unsafe { *(m as *const Mode as *const u8) };
    if raw > 2 {
        note_invalid("C-like enum tag out of range");
        return Val::T(0);
    }
    Val::T(raw as u32)
}
pub fn mk_mode(v: &Val) -> Mode {
    match v.tag() {
        0 => Mode::X,
        1 => Mode::Y,
        _ => Mode::Z,
    }
}

#[flat(sized = false, default = true)]
pub struct ArrTail {
    pub id: u16,
    pub on: [Bool; 4],
    pub m: [Mode; 2],
    pub v: FlatVec<[Bool; 2], u8>,
}

impl ZooMsg for ArrTail {
    const NAME: &'static str = "ArrTail";
    fn gen(g: &mut Gen) -> Val {
        let id = g.int(16, false);
        let on = Val::R((0..4).map(|_| Val::B(g.boolean())).collect());
        let m = Val::R((0..2).map(|_| Val::T(g.pick(3))).collect());
        let n = g.len();
        let v = Val::L((0..n).map(|_| Val::R(vec![Val::B(g.boolean()), Val::B(g.boolean())])).collect());
        Val::R(vec![Val::I(id), on, m, v])
    }
    fn emplace_val<'b>(bytes: &'b mut [u8], v: &Val) -> Result<&'b mut Self, Error> {
        let on = v.field(1);
        let m = v.field(2);
        Self::new_in_place(
            bytes,
            ArrTailInit {
                id: v.field(0).int() as u16,
                on: [Bool::from(on.field(0).boolean()), Bool::from(on.field(1).boolean()), Bool::from(on.field(2).boolean()), Bool::from(on.field(3).boolean())],
                m: [mk_mode(m.field(0)), mk_mode(m.field(1))],
                v: vec::FromIterator(v.field(3).list().iter().map(|x| [Bool::from(x.field(0).boolean()), Bool::from(x.field(1).boolean())])),
            },
        )
    }
    fn read(&self) -> Val {
        Val::R(vec![
            Val::I(self.id as i128),
            Val::R(self.on.iter().map(rd_bool).collect()),
            Val::R(self.m.iter().map(rd_mode).collect()),
            rd_vec(&self.v, |a| Val::R(a.iter().map(rd_bool).collect())),
        ])
    }
    fn tweak(&mut self, g: &mut Gen) {
        self.on[g.pick(4) as usize] = Bool::from(g.boolean());
        tweak_vec(&mut self.v, g, |g| [Bool::from(g.boolean()), Bool::True]);
    }
}

// T20, T21: FlexVec with a portable offset type (OFFSET_SIZE wider than the alignment)

pub type PStr16 = FlatString<le::U16>;
impl ZooMsg for PStr16 {
    const NAME: &'static str = "FlatString<le::U16>";
    fn gen(g: &mut Gen) -> Val {
        let n = g.len();
        Val::S(g.string(n))
    }
    fn emplace_val<'b>(bytes: &'b mut [u8], v: &Val) -> Result<&'b mut Self, Error> {
        Self::new_in_place(bytes, string::FromStr(v.str()))
    }
    fn read(&self) -> Val {
        rd_str(self)
    }
    fn tweak(&mut self, g: &mut Gen) {
        tweak_str(self, g);
    }
}

pub type PFlexS = FlexVec<PStr16, le::U16>;
impl ZooMsg for PFlexS {
    const NAME: &'static str = "FlexVec<FlatString<le::U16>,le::U16>";
    fn gen(g: &mut Gen) -> Val {
        gen_flex::<PStr16>(g)
    }
    fn emplace_val<'b>(bytes: &'b mut [u8], v: &Val) -> Result<&'b mut Self, Error> {
        emplace_flex::<PStr16, le::U16>(bytes, v)
    }
    fn read(&self) -> Val {
        read_flex(self)
    }
    fn tweak(&mut self, g: &mut Gen) {
        tweak_flex(self, g);
    }
}

pub type VecU16 = FlatVec<u16, u16>;
impl ZooMsg for VecU16 {
    const NAME: &'static str = "FlatVec<u16,u16>";
    fn gen(g: &mut Gen) -> Val {
        let n = g.len();
        Val::L((0..n).map(|_| Val::I(g.int(16, false))).collect())
    }
    fn emplace_val<'b>(bytes: &'b mut [u8], v: &Val) -> Result<&'b mut Self, Error> {
        Self::new_in_place(bytes, vec::FromIterator(v.list().iter().map(|x| x.int() as u16)))
    }
    fn read(&self) -> Val {
        rd_vec(self, |x| Val::I(*x as i128))
    }
    fn tweak(&mut self, g: &mut Gen) {
        tweak_vec(self, g, |g| g.int(16, false) as u16);
    }
}

pub type PFlexV = FlexVec<VecU16, le::U32>;
impl ZooMsg for PFlexV {
    const NAME: &'static str = "FlexVec<FlatVec<u16,u16>,le::U32>";
    fn gen(g: &mut Gen) -> Val {
        gen_flex::<VecU16>(g)
    }
    fn emplace_val<'b>(bytes: &'b mut [u8], v: &Val) -> Result<&'b mut Self, Error> {
        emplace_flex::<VecU16, le::U32>(bytes, v)
    }
    fn read(&self) -> Val {
        read_flex(self)
    }
    fn tweak(&mut self, g: &mut Gen) {
        tweak_flex(self, g);
    }
}

// T22: vector of C-like enums

pub type ModeVec = FlatVec<Mode, u8>;
impl ZooMsg for ModeVec {
    const NAME: &'static str = "FlatVec<Mode,u8>";
    fn gen(g: &mut Gen) -> Val {
        let n = g.len();
        Val::L((0..n).map(|_| Val::T(g.pick(3))).collect())
    }
    fn emplace_val<'b>(bytes: &'b mut [u8], v: &Val) -> Result<&'b mut Self, Error> {
        Self::new_in_place(bytes, vec::FromIterator(v.list().iter().map(mk_mode)))
    }
    fn read(&self) -> Val {
        rd_vec(self, rd_mode)
    }
    fn tweak(&mut self, g: &mut Gen) {
        tweak_vec(self, g, |g| [Mode::X, Mode::Y, Mode::Z][g.pick(3) as usize]);
    }
}

// T23: sized struct ending in an array of content-constrained items

#[flat(default = true)]
pub struct ArrLast {
    pub id: u16,
    pub on: [Bool; 4],
}

impl ZooMsg for ArrLast {
    const NAME: &'static str = "ArrLast";
    fn gen(g: &mut Gen) -> Val {
        let id = g.int(16, false);
        Val::R(vec![Val::I(id), Val::R((0..4).map(|_| Val::B(g.boolean())).collect())])
    }
    fn emplace_val<'b>(bytes: &'b mut [u8], v: &Val) -> Result<&'b mut Self, Error> {
        let on = v.field(1);
        Self::new_in_place(
            bytes,
            ArrLast {
                id: v.field(0).int() as u16,
                on: [Bool::from(on.field(0).boolean()), Bool::from(on.field(1).boolean()), Bool::from(on.field(2).boolean()), Bool::from(on.field(3).boolean())],
            },
        )
    }
    fn read(&self) -> Val {
        Val::R(vec![Val::I(self.id as i128), Val::R(self.on.iter().map(rd_bool).collect())])
    }
    fn tweak(&mut self, g: &mut Gen) {
        self.on[g.pick(4) as usize] = Bool::from(g.boolean());
    }
}

// ---------------------------------------------------------------------------------------------

pub const N_HAND: usize = 24;
pub const N_TYPES: usize = N_HAND + crate::zoo_gen_list::N_GEN;
pub const HAND_NAMES: [&str; N_HAND] = [
    "TestMsg",
    "PadTail",
    "Wide",
    "TagStr",
    "FlatVec<u8,u32>",
    "FlatVec<[u8;3],u16>",
    "FlatString<u32>",
    "FlexVec<u8,u8>",
    "FlexVec<FlatVec<i32,u16>,u16>",
    "FlexVec<TagStr,u32>",
    "FlexTail",
    "PStruct",
    "PEnum",
    "Fixed",
    "FixedE",
    "Nest",
    "FlexVec<FlatString<u8>,u16>",
    "FlatVec<Bool,u8>",
    "Pad3",
    "ArrTail",
    "FlexVec<FlatString<le::U16>,le::U16>",
    "FlexVec<FlatVec<u16,u16>,le::U32>",
    "FlatVec<Mode,u8>",
    "ArrLast",
];

pub fn type_name(idx: usize) -> &'static str {
    if idx < N_HAND {
        HAND_NAMES[idx]
    } else {
        crate::zoo_gen_list::GEN_NAMES[(idx - N_HAND) % crate::zoo_gen_list::N_GEN]
    }
}

/// Dispatch a generic call over the zoo by index.
#[macro_export]
macro_rules! with_zoo_type {
    ($idx:expr, $f:ident, $($args:expr),* $(,)?) => {
        match $idx {
            0 => $f::<$crate::zoo::TestMsg>($($args),*),
            1 => $f::<$crate::zoo::PadTail>($($args),*),
            2 => $f::<$crate::zoo::Wide>($($args),*),
            3 => $f::<$crate::zoo::TagStr>($($args),*),
            4 => $f::<$crate::zoo::VecU8>($($args),*),
            5 => $f::<$crate::zoo::VecA3>($($args),*),
            6 => $f::<$crate::zoo::Str32>($($args),*),
            7 => $f::<$crate::zoo::FlexB>($($args),*),
            8 => $f::<$crate::zoo::FlexV>($($args),*),
            9 => $f::<$crate::zoo::FlexE>($($args),*),
            10 => $f::<$crate::zoo::FlexTail>($($args),*),
            11 => $f::<$crate::zoo::PStruct>($($args),*),
            12 => $f::<$crate::zoo::PEnum>($($args),*),
            13 => $f::<$crate::zoo::Fixed>($($args),*),
            14 => $f::<$crate::zoo::FixedE>($($args),*),
            15 => $f::<$crate::zoo::Nest>($($args),*),
            16 => $f::<$crate::zoo::FlexS>($($args),*),
            17 => $f::<$crate::zoo::BoolVec>($($args),*),
            18 => $f::<$crate::zoo::Pad3>($($args),*),
            19 => $f::<$crate::zoo::ArrTail>($($args),*),
            20 => $f::<$crate::zoo::PFlexS>($($args),*),
            21 => $f::<$crate::zoo::PFlexV>($($args),*),
            22 => $f::<$crate::zoo::ModeVec>($($args),*),
            23 => $f::<$crate::zoo::ArrLast>($($args),*),
            i => $crate::with_zoo_gen_type!(i - 24, $f, $($args),*),
        }
    };
}
