//! Workload: the plan (messages to build, buffer sizes) and the two parties that run the real
//! `flatty_io` sender / receiver over the simulated pipe, in the blocking and the async world.

use crate::backend::{guarded, Caught};
use crate::pipe::*;
use crate::tape::{Decider, St, Tape};
use crate::val::{Gen, Val};
use crate::world::*;
use crate::zoo::{emp, ZooMsg};
use flatty::prelude::*;
use flatty::AlignedBytes;
use flatty_io::{AsyncReceiver, AsyncSender, Receiver, RecvError, Sender};
use std::sync::Arc;

#[derive(Clone, Debug, serde::Serialize)]
pub struct MsgPlan {
    pub val: Val,
    pub use_default: bool,
    /// build through `as_mut_bytes()` + `assume_init()` instead of `new_in_place()`
    pub manual_init: bool,
    /// what the finished value reads back as in the planner's (pattern-filled) scratch buffer
    pub expect_val: Val,
    pub tweaks: Vec<u32>,
    pub len: usize,
    pub pad_start: usize,
    /// every construction step reported success, yet the value does not validate in the buffer
    /// it was built in; it is sent all the same (delivery worlds only) and the ordinary oracles
    /// judge what the receiver makes of it
    pub unvalidated: bool,
}

#[derive(Clone, Debug, serde::Serialize)]
pub struct Plan {
    pub type_name: String,
    pub align: usize,
    pub min_size: usize,
    pub msgs: Vec<MsgPlan>,
    pub max_send: usize,
    pub max_recv: usize,
    /// harness policy: probability (of 8) that a received guard is retained once
    pub retain_p: u32,
    /// length of the sender's buffer (what `alloc()` hands out)
    pub send_buf_len: usize,
    /// 0 = ordinary run, 1 = u8-boundary run, 2 = u16-boundary (64 KiB buffers) run
    pub bmode: u8,
    /// Some(c): the buffers are built with `IoBuffer::new(pipe, c, ALIGN)` instead of `::io(pipe, max_msg_len)`
    pub send_cap: Option<usize>,
    pub recv_cap: Option<usize>,
    /// alignment handed to `IoBuffer::new` for explicit buffers (a multiple of M::ALIGN)
    pub buf_align: usize,
    /// values whose fresh emplacement did not validate in its own buffer (value, size())
    #[serde(skip)]
    pub anomalies: Vec<(Val, usize)>,
}

/// Builder operations on the live top-level value: mostly the type's own history (push / pop /
/// truncate / element writes ...), sometimes a whole-value `assign_in_place` that may fail
/// (C18 territory: a failure that leaves the value invalid is only a probe, see `make_plan`).
pub fn tweak_top<M: ZooMsg + ?Sized>(m: &mut M, g: &mut Gen) {
    // builder histories are replayed later from their recorded decisions, outside the planner:
    // they must not depend on the planner's per-run boundary mode
    struct Restore(u8);
    impl Drop for Restore {
        fn drop(&mut self) {
            crate::val::set_boundary_mode(self.0);
        }
    }
    let _restore = Restore(crate::val::boundary_mode());
    crate::val::set_boundary_mode(0);
    if g.chance(1, 6) {
        let scale = [1usize, 3, 12][g.weighted(&[2, 2, 1])];
        let other = M::gen(&mut Gen::new(g.d, g.st, scale));
        // a failed assignment may leave an invalid value behind on the pinned tree (the tag is
        // written before the size check): no further operation on it
        if m.assign_in_place(emp::<M>(&other)).is_err() {
            crate::zoo::note_refused();
            return;
        }
        if g.chance(1, 2) {
            return;
        }
    }
    m.tweak(g);
}

/// Build `v` (optionally default / tweaked) in `buf` exactly as the sender party will, and
/// report (size, whole-value-validates).  Panics inside library code are caught by the caller.
pub fn build_in<M: ZooMsg + ?Sized>(buf: &mut [u8], mp: &MsgPlan) -> Result<(usize, bool, Val), flatty::Error> {
    {
        let m: &mut M = if mp.use_default { M::default_in_place(buf)? } else { M::new_in_place(buf, emp::<M>(&mp.val))? };
        if !mp.tweaks.is_empty() {
            let mut d = Decider::from_tape(Tape { msgs: mp.tweaks.clone(), ..Default::default() });
            tweak_top::<M>(m, &mut Gen::new(&mut d, St::Msgs, 3));
        }
    }
    // producer-side validity first: the bytes the value was mapped from must validate (this is
    // the precondition of SendGuard's unchecked deref) before anything is read through them
    if M::validate(buf).is_err() {
        return Ok((0, false, Val::I(0)));
    }
    let m = unsafe { M::from_bytes_unchecked(buf) };
    let size = m.size();
    let val = m.read();
    Ok((size, size <= buf.len(), val))
}

/// The same construction as `build_in` for a value that does *not* validate afterwards: its
/// `size()` and deep read through the unchecked mapping (what `SendGuard` does).  None when the
/// value validates.  Call under `guarded`.
pub fn build_unvalidated<M: ZooMsg + ?Sized>(buf: &mut [u8], mp: &MsgPlan) -> Result<Option<(usize, Val)>, flatty::Error> {
    {
        let m: &mut M = if mp.use_default { M::default_in_place(buf)? } else { M::new_in_place(buf, emp::<M>(&mp.val))? };
        if !mp.tweaks.is_empty() {
            let mut d = Decider::from_tape(Tape { msgs: mp.tweaks.clone(), ..Default::default() });
            tweak_top::<M>(m, &mut Gen::new(&mut d, St::Msgs, 3));
        }
    }
    match M::validate(buf) {
        Ok(()) => return Ok(None),
        // the value does not fit the buffer it was emplaced into (on the pinned tree an emplacer
        // accepts a few bytes too many when the buffer length is not a multiple of ALIGN – C15
        // territory): not a message this buffer "can hold", the planner clamps it instead
        Err(e) if e.kind == flatty::error::ErrorKind::InsufficientSize => return Ok(None),
        Err(_) => {}
    }
    if cfg!(miri) {
        // mapping a value that does not validate is the library's business in a real sender;
        // the Miri tier runs receiver-only worlds and never sends
        return Ok(None);
    }
    let m = unsafe { M::from_bytes_unchecked(buf) };
    let size = m.size();
    if size > buf.len() || size < M::MIN_SIZE {
        return Ok(None);
    }
    let _ = crate::zoo::take_invalid();
    let val = m.read();
    if crate::zoo::take_invalid().is_some() {
        return Ok(None);
    }
    Ok(Some((size, val)))
}

/// Empirical trailing padding: bytes of the frame never written by the library (emplace the
/// same value over 0x00 and over 0xFF; differing positions were never written).  Returns the
/// start of the maximal never-written suffix.
fn pad_start_of<M: ZooMsg + ?Sized>(mp: &MsgPlan, cap: usize, size: usize) -> usize {
    let mut a = AlignedBytes::new(cap, M::ALIGN);
    let mut b = AlignedBytes::new(cap, M::ALIGN);
    a.fill(0x00);
    b.fill(0xFF);
    let ra = guarded(|| build_in::<M>(&mut a, mp).map(|x| x.0));
    let rb = guarded(|| build_in::<M>(&mut b, mp).map(|x| x.0));
    if !matches!((ra, rb), (Ok(Ok(x)), Ok(Ok(y))) if x == size && y == size) {
        return size;
    }
    let mut p = size.min(cap);
    while p > 0 && a[p - 1] != b[p - 1] {
        p -= 1;
    }
    p
}

#[derive(Clone, Copy, Debug)]
pub enum NSpec {
    UpTo(u32),
    Exactly(u32),
}

pub fn make_plan<M: ZooMsg + ?Sized>(d: &mut Decider, stats: &mut Stats, nspec: NSpec, tweak_p: u32) -> Plan {
    make_plan_opt::<M>(d, stats, nspec, tweak_p, true)
}

pub fn make_plan_opt<M: ZooMsg + ?Sized>(d: &mut Decider, stats: &mut Stats, nspec: NSpec, tweak_p: u32, allow_boundary: bool) -> Plan {
    // size of the default value = smallest max_msg_len that lets the fallback message through
    let mut big = AlignedBytes::new(1024, M::ALIGN.max(16));
    big.fill(0);
    let default_size = M::default_in_place(&mut big).map(|m| m.size()).unwrap_or(M::MIN_SIZE);
    let base = default_size.max(M::MIN_SIZE).max(1);
    // up to 600 so that u8 length / offset types reach and cross their maximum (255)
    let extras = [0usize, M::ALIGN, 8, 20, 40, 100, 250, 600];
    let extra = extras[d.weighted(St::Cfg, &[4, 4, 6, 8, 8, 6, 2, 1])];
    // one run in 400: buffers beyond 64 KiB, so that 16-bit length / offset types reach their
    // maximum (few messages only; such a run costs milliseconds instead of microseconds)
    // boundary runs: 1 in 16 at the u8 maximum (buffers of +600 bytes), 1 in 2048 at the u16 maximum
    let bmode: u8 = match if allow_boundary { d.weighted(St::Cfg, &[1919, 128, 1]) } else { 0 } {
        1 => 1,
        2 => 2,
        _ => 0,
    };
    let huge = bmode == 2;
    let extra = if huge { 70_000 } else if bmode == 1 { 600 } else { extra };
    let nspec = if bmode != 0 { NSpec::UpTo(2) } else { nspec };
    struct BoundaryReset;
    impl Drop for BoundaryReset {
        fn drop(&mut self) {
            crate::val::set_boundary_mode(0);
        }
    }
    let _reset = BoundaryReset;
    crate::val::set_boundary_mode(bmode);
    let max_send = base + extra;
    let n_msgs = match nspec {
        // mostly short sequences; one run in eight a long one (many windows worth of stream)
        NSpec::UpTo(m) => {
            if d.chance(St::Cfg, 1, 8) {
                d.below(St::Cfg, 4 * m + 1) as usize
            } else {
                d.below(St::Cfg, m + 1) as usize
            }
        }
        NSpec::Exactly(m) => m as usize,
    };
    // how the buffers are constructed: through `::io(pipe, max_msg_len)` (capacity 2x), or
    // explicitly with "any buffer capacity that can hold the largest message"
    let explicit = d.chance(St::Cfg, 1, 3);
    let send_cap = if explicit { Some(max_send.max(M::MIN_SIZE) + [0usize, M::ALIGN, 5][d.weighted(St::Cfg, &[3, 1, 1])]) } else { None };
    let cap = send_cap.unwrap_or(2 * max_send.max(M::MIN_SIZE));
    // the library only ever sees `scratch[..cap]`; the canary behind it catches (and contains)
    // builder operations that write outside the buffer they were given
    const CANARY: usize = 64;
    let mut scratch_store = AlignedBytes::new(cap + CANARY, M::ALIGN);
    scratch_store.fill(0xC7);
    macro_rules! canary_hit {
        () => {{
            let hit = scratch_store[cap..].iter().any(|&b| b != 0xC7);
            if hit {
                scratch_store[cap..].fill(0xC7);
            }
            hit
        }};
    }
    let mut msgs = Vec::with_capacity(n_msgs);
    let mut anomalies: Vec<(Val, usize)> = Vec::new();
    for _ in 0..n_msgs {
        scratch_store[..cap].fill(0xA5);
        let scale = if huge { 66_000 } else if bmode == 1 { 300 } else { [2usize, 8, 40, 260, 700][d.weighted(St::Msgs, &[6, 8, 6, 2, 1])] };
        let val = M::gen(&mut Gen::new(d, St::Msgs, scale));
        let use_default = d.chance(St::Msgs, 1, 12);
        // fit: largest clamp that emplaces and whose size() <= max_send
        let mut chosen: Option<(MsgPlan, usize)> = None;
        if use_default {
            let mp = MsgPlan { val: Val::I(0), use_default: true, manual_init: false, expect_val: Val::I(0), tweaks: vec![], len: 0, pad_start: 0, unvalidated: false };
            if let Ok(Ok((size, true, v))) = guarded(|| build_in::<M>(&mut scratch_store[..cap], &mp)) {
                if size <= max_send {
                    // the documented default state, where the adapter states it
                    let want = M::default_val().unwrap_or_else(|| v.clone());
                    chosen = Some((MsgPlan { val: v, expect_val: want, ..mp }, size));
                }
            }
        }
        if chosen.is_none() {
            let top = val.max_len();
            let mut n = top;
            loop {
                let v = if n == top { val.clone() } else { val.clamp(n) };
                let mp = MsgPlan { val: v, use_default: false, manual_init: false, expect_val: Val::I(0), tweaks: vec![], len: 0, pad_start: 0, unvalidated: false };
                match guarded(|| build_in::<M>(&mut scratch_store[..cap], &mp)) {
                    Ok(Ok((size, true, back))) if size <= max_send => {
                        if n < top {
                            stats[P::value_clamped_to_fit as usize] += 1;
                        }
                        // the value the application asked for is the reference (a read-back that
                        // differs from it shows up as `0-requested-value` in the delivery oracle)
                        let _ = back;
                        let want = mp.val.clone();
                        chosen = Some((MsgPlan { expect_val: want, ..mp }, size));
                        break;
                    }
                    Ok(Ok((size, false, _))) => {
                        stats[P::producer_left_invalid_message as usize] += 1;
                        if anomalies.len() < 4 {
                            anomalies.push((mp.val.clone(), size));
                        }
                        // the emplacer reported success and the value does not validate: an
                        // application would send it – so does the sender party
                        scratch_store[..cap].fill(0xA5);
                        if let Ok(Ok(Some((usize_, _back)))) = guarded(|| build_unvalidated::<M>(&mut scratch_store[..cap], &mp)) {
                            if usize_ <= max_send && !canary_hit!() {
                                stats[P::unvalidated_value_sent as usize] += 1;
                                let want = mp.val.clone();
                                chosen = Some((MsgPlan { expect_val: want, unvalidated: true, ..mp }, usize_));
                                break;
                            }
                        }
                    }
                    Err(Caught::Panic(..)) => stats[P::producer_panicked as usize] += 1,
                    _ => {}
                }
                if n == 0 {
                    break;
                }
                // descend quickly at first, then one by one
                n = if n > 16 { n * 3 / 4 } else { n - 1 };
            }
        }
        let (mut mp, mut size) = match chosen {
            Some(x) => x,
            None => {
                // fall back to the default value (always fits by construction of max_send)
                let mp = MsgPlan { val: Val::I(0), use_default: true, manual_init: false, expect_val: Val::I(0), tweaks: vec![], len: 0, pad_start: 0, unvalidated: false };
                match guarded(|| build_in::<M>(&mut scratch_store[..cap], &mp)) {
                    Ok(Ok((size, true, v))) => {
                        let want = M::default_val().unwrap_or_else(|| v.clone());
                        (MsgPlan { val: v, expect_val: want, ..mp }, size)
                    }
                    _ => continue,
                }
            }
        };
        // builder operations on the live value (probe-only when they break the value)
        if !mp.unvalidated && d.chance(St::Msgs, tweak_p, 8) {
            let start = d.rec.msgs.len();
            let _ = crate::zoo::take_refused();
            let r = guarded(|| -> Result<(usize, bool, Val), flatty::Error> {
                scratch_store[..cap].fill(0x5A);
                let scratch = &mut scratch_store[..cap];
                {
                    let m: &mut M = if mp.use_default { M::default_in_place(scratch)? } else { M::new_in_place(scratch, emp::<M>(&mp.val))? };
                    tweak_top::<M>(m, &mut Gen::new(d, St::Msgs, 3));
                }
                if M::validate(scratch).is_err() {
                    return Ok((0, false, Val::I(0)));
                }
                let m = unsafe { M::from_bytes_unchecked(scratch) };
                let size = m.size();
                Ok((size, size <= scratch.len(), m.read()))
            });
            let tw: Vec<u32> = d.rec.msgs[start..].to_vec();
            let r = if canary_hit!() {
                stats[P::producer_wrote_outside_buffer as usize] += 1;
                Err(Caught::Stopped("canary"))
            } else {
                r
            };
            match r {
                Ok(Ok((s, true, _))) if s <= max_send && !tw.is_empty() => {
                    // confirm that replaying the recorded decisions reproduces the same value
                    let mp2 = MsgPlan { tweaks: tw, ..mp.clone() };
                    scratch_store[..cap].fill(0xA5);
                    if let Ok(Ok((s2, true, back2))) = guarded(|| build_in::<M>(&mut scratch_store[..cap], &mp2)) {
                        if s2 == s {
                            mp = MsgPlan { expect_val: back2, ..mp2 };
                            size = s;
                            stats[P::tweaks_applied as usize] += 1;
                        }
                    }
                }
                Ok(Ok((_, false, _))) => {
                    stats[P::producer_left_invalid_message as usize] += 1;
                    // invalid although no builder operation was refused: sent all the same
                    if !crate::zoo::take_refused() && !tw.is_empty() {
                        let mp2 = MsgPlan { tweaks: tw, ..mp.clone() };
                        scratch_store[..cap].fill(0xA5);
                        if let Ok(Ok(Some((s2, back2)))) = guarded(|| build_unvalidated::<M>(&mut scratch_store[..cap], &mp2)) {
                            if s2 <= max_send && !canary_hit!() && !crate::zoo::take_refused() {
                                stats[P::unvalidated_value_sent as usize] += 1;
                                mp = MsgPlan { expect_val: back2, unvalidated: true, ..mp2 };
                                size = s2;
                            }
                        }
                    }
                }
                Err(Caught::Panic(..)) => stats[P::producer_panicked as usize] += 1,
                _ => {}
            }
            let _ = crate::zoo::take_refused();
        }
        mp.len = size;
        mp.manual_init = !mp.use_default && d.chance(St::Msgs, 1, 8);
        mp.pad_start = pad_start_of::<M>(&mp, cap, size);
        if mp.pad_start < size {
            stats[P::msg_with_trailing_padding as usize] += 1;
        }
        if size == max_send {
            stats[P::msg_at_max_len as usize] += 1;
        }
        if mp.use_default {
            stats[P::default_in_place_used as usize] += 1;
        }
        msgs.push(mp);
    }
    let longest = msgs.iter().map(|m| m.len).max().unwrap_or(base);
    let rx = [0usize, 1, M::ALIGN, longest, 3, 100];
    let max_recv = longest + rx[d.weighted(St::Cfg, &[4, 2, 2, 2, 1, 1])];
    let retain_p = [0u32, 1, 3][d.weighted(St::Cfg, &[3, 1, 1])];
    let buf_align = if explicit { M::ALIGN * [1usize, 1, 2, 4][d.weighted(St::Cfg, &[4, 2, 1, 1])] } else { M::ALIGN };
    let recv_cap = if explicit { Some(longest.max(M::MIN_SIZE) + [0usize, 1, M::ALIGN, 7, longest][d.weighted(St::Cfg, &[4, 1, 2, 1, 1])]) } else { None };
    Plan { type_name: M::name(), align: M::ALIGN, min_size: M::MIN_SIZE, msgs, max_send, max_recv, retain_p, send_buf_len: cap, bmode, send_cap, recv_cap, buf_align, anomalies }
}

/// What the harness does after a failed `send()` / `recv()` (seeded policy).
#[derive(Clone, Copy, Debug, PartialEq, Eq)]
pub enum AfterSendErr {
    Stop,
    ResendSame,
    SendNext,
}

fn err_kind_name(e: &std::io::Error) -> String {
    format!("{:?}", e.kind())
}

/// An emplacer that scribbles over the bytes it was given and then fails: a legal outcome of
/// `new_in_place` (e.g. a value that does not fit) after which the sender must be as before.
pub struct FailEmp;
unsafe impl<M: FlatUnsized + ?Sized> flatty::Emplacer<M> for FailEmp {
    unsafe fn emplace_unchecked(self, bytes: &mut [u8]) -> Result<&mut M, flatty::Error> {
        bytes.fill(0xEE);
        Err(flatty::Error { kind: flatty::error::ErrorKind::InsufficientSize, pos: 0 })
    }
}

/// Per-run sender policy: how often (of 8) a guard is abandoned before a message, and the byte
/// the vacant send buffer is filled with before a message is built (None = leave as it is).
fn sender_policy(sh: &Shared) -> (u32, Option<u8>) {
    let mut w = lock(sh);
    let a = [0u32, 1, 3][w.dec.weighted(St::Policy, &[5, 2, 1])];
    let f = [None, Some(0xFFu8), Some(0xA5), Some(0x01)][w.dec.weighted(St::Policy, &[3, 1, 1, 1])];
    (a, f)
}
fn abandon_kind(sh: &Shared, p: u32) -> Option<u32> {
    if p == 0 {
        return None;
    }
    let mut w = lock(sh);
    if w.dec.chance(St::Policy, p, 8) {
        let k = w.dec.below(St::Policy, 4);
        w.probe(P::abandoned_guard);
        if k == 2 {
            w.probe(P::failed_emplace_then_send);
        }
        Some(k)
    } else {
        None
    }
}

// ---- blocking parties -----------------------------------------------------------------------

pub fn sender_blocking<M: ZooMsg + ?Sized>(sh: Shared, plan: Arc<Plan>) {
    let r = guarded(|| {
        let mut sender = match plan.send_cap {
            Some(c) => Sender::<M, _>::new(flatty_io::IoBuffer::new(SimWriter::new(sh.clone()), c, plan.buf_align)),
            None => Sender::<M, _>::io(SimWriter::new(sh.clone()), plan.max_send),
        };
        let mut i = 0usize;
        let mut resends = 0u32;
        // the send buffer starts as uninitialised heap memory (differs from process to process,
        // and padding bytes of a frame are whatever was there): give it a defined start
        // geometry of the buffer a fresh sender hands out: the reference for every later alloc()
        let mut base_geom = (0usize, 0usize);
        if let Ok(mut ug) = sender.alloc() {
            let b = ug.as_mut_bytes();
            base_geom = (b.len(), b.as_ptr() as usize % M::ALIGN);
            b.fill(0);
        }
        let (abandon_p, prefill) = sender_policy(&sh);
        while i < plan.msgs.len() {
            let mp = &plan.msgs[i];
            let poisoned = sender.verif_buffer().verif_state().3;
            // legal API sequences that put nothing on the wire: a guard that is allocated and
            // dropped (untouched, scribbled, after a failed emplacement, or fully built)
            if !poisoned {
                if let Some(k) = abandon_kind(&sh, abandon_p) {
                    if let Ok(mut ug) = sender.alloc() {
                        match k {
                            0 => drop(ug),
                            1 => {
                                ug.as_mut_bytes().fill(0xEE);
                                drop(ug)
                            }
                            2 => {
                                if ug.new_in_place(FailEmp).is_ok() {
                                    lock(&sh).harness_error = Some("FailEmp succeeded".into());
                                    return;
                                }
                            }
                            _ => drop(ug.new_in_place(emp::<M>(&mp.val))),
                        }
                    }
                }
            }
            let mut ug = match sender.alloc() {
                Ok(g) => g,
                Err(e) => {
                    lock(&sh).harness_error = Some(format!("alloc failed: {}", err_kind_name(&e)));
                    return;
                }
            };
            let cur_geom = {
                let b = ug.as_mut_bytes();
                (b.len(), b.as_ptr() as usize % M::ALIGN)
            };
            let ug = match prefill {
                Some(b) => {
                    let mut ug = ug;
                    ug.as_mut_bytes().fill(b);
                    lock(&sh).probe(P::send_buffer_prefilled);
                    ug
                }
                None => ug,
            };
            let built = if mp.use_default {
                ug.default_in_place()
            } else if mp.manual_init {
                let mut ug = ug;
                match M::emplace_val(ug.as_mut_bytes(), &mp.val) {
                    Ok(_) => Ok(unsafe { ug.assume_init() }),
                    Err(e) => Err(e),
                }
            } else {
                ug.new_in_place(emp::<M>(&mp.val))
            };
            let mut g = match built {
                Ok(g) => g,
                Err(e) => {
                    if cur_geom.0 < base_geom.0 || cur_geom.1 != base_geom.1 {
                        // the planned message fits the buffer of a fresh sender; after this history alloc()
                        // hands out a shorter or differently aligned one and the message is refused
                        lock(&sh).violate("", "0-send-buffer", "shrunk-or-misaligned", "alloc", format!("message {}: alloc() handed out {} bytes at offset {} mod ALIGN (a fresh sender: {} bytes at {}), emplacement refused with {:?}", i, cur_geom.0, cur_geom.1, base_geom.0, base_geom.1, e));
                        return;
                    }
                    lock(&sh).harness_error = Some(format!("planned message {} does not emplace in the send buffer: {:?}", i, e));
                    return;
                }
            };
            if !mp.tweaks.is_empty() {
                let mut d = Decider::from_tape(Tape { msgs: mp.tweaks.clone(), ..Default::default() });
                tweak_top::<M>(&mut *g, &mut Gen::new(&mut d, St::Msgs, 3));
            }
            let size = g.size();
            let bytes = g.as_bytes();
            if size >= bytes.len() + M::ALIGN || size != mp.len {
                lock(&sh).harness_error = Some(format!("message {}: size() {} but planned {} (view {})", i, size, mp.len, bytes.len()));
                return;
            }
            let frame = bytes[..size.min(bytes.len())].to_vec();
            let val = g.read();
            lock(&sh).begin_send(i, frame, size, val, poisoned);
            let res = guarded(|| g.send());
            let win = sender.verif_buffer().verif_state();
            let (result, panicked, stop) = match res {
                Ok(Ok(())) => (Ok(()), None, false),
                Ok(Err(e)) => (Err(err_kind_name(&e)), None, false),
                Err(Caught::Stopped(_)) => (Err("stopped".into()), None, true),
                Err(c @ Caught::Panic(..)) => (Err("panic".into()), Some(c.describe()), true),
            };
            let failed = result.is_err();
            let mut w = lock(&sh);
            w.end_send(result, panicked.clone(), win);
            if stop {
                if panicked.is_some() && poisoned {
                    w.probe(P::send_on_poisoned_refused);
                }
                return;
            }
            if failed {
                let k = w.dec.weighted(St::Policy, &[1, 3, 3]);
                let pol = [AfterSendErr::Stop, AfterSendErr::ResendSame, AfterSendErr::SendNext][k];
                drop(w);
                resends += 1;
                if resends > 6 {
                    return;
                }
                match pol {
                    AfterSendErr::Stop => return,
                    AfterSendErr::ResendSame => {
                        if !win.3 {
                            lock(&sh).probe(P::send_retried_after_err_at0);
                        }
                    }
                    AfterSendErr::SendNext => i += 1,
                }
            } else {
                i += 1;
            }
        }
    });
    if let Err(c) = r {
        if let Caught::Panic(..) = c {
            let mut w = lock(&sh);
            let site = c.site();
            w.violate("", "no-panic", "panic", &site, format!("sender party panicked outside send(): {}", c.describe()));
        }
    }
}

/// Inspect a live guard: size, view length, deep read, re-validation.  All under catch_unwind.
fn inspect<M: ZooMsg + ?Sized>(m: &M) -> Result<(usize, usize, Val, bool, Option<String>), Caught> {
    guarded(|| {
        let size = m.size();
        let view = m.as_bytes();
        // extent of the handed-out value: what its own byte view spans and what the reference
        // itself claims (size_of_val rounds an unsized struct up to its alignment)
        let view_len = view.len().max(core::mem::size_of_val(m));
        let _ = crate::zoo::take_invalid();
        let val = m.read();
        let invalid = crate::zoo::take_invalid().map(|s| s.to_string());
        let ok = M::validate(view).is_ok();
        (size, view_len, val, ok, invalid)
    })
}

pub fn receiver_blocking<M: ZooMsg + ?Sized>(sh: Shared, plan: Arc<Plan>) {
    let r = guarded(|| {
        let mut rx = match plan.recv_cap {
            Some(c) => Receiver::<M, _>::new(flatty_io::IoBuffer::new(SimReader::new(sh.clone()), c, plan.buf_align)),
            None => Receiver::<M, _>::io(SimReader::new(sh.clone()), plan.max_recv),
        };
        let mut retries = 0u32;
        let mut parse_seen = 0u32;
        let mut after_closed = false;
        loop {
            {
                let mut w = lock(&sh);
                if w.recvs.len() > w.pipe.sink.len() + 64 {
                    let d = format!("{} recv() calls on a {}-byte stream without reaching the end", w.recvs.len(), w.pipe.sink.len());
                    w.violate("", "T1-termination", "hang:no-progress", "recv", d);
                    break;
                }
            }
            let before = rx.verif_buffer().verif_state();
            lock(&sh).begin_recv(before);
            let outcome: RecvOutcome;
            let mut stop = false;
            {
            let res = guarded(|| rx.recv());
            lock(&sh).recv_returned();
            match res {
                Ok(Ok(guard)) => {
                    // never let the guard be dropped implicitly (e.g. while unwinding): its Drop
                    // calls size() and skip(), which may panic on a broken tree – a panic inside
                    // a panic would abort the whole process
                    let guard = std::mem::ManuallyDrop::new(guard);
                    match inspect::<M>(&**guard) {
                        Ok((size, view_len, val, revalidates, invalid)) => {
                            let retain = {
                                let mut w = lock(&sh);
                                let p = plan.retain_p;
                                p > 0 && w.dec.chance(St::Policy, p, 8)
                            };
                            let occ = {
                                // bytes held by the receiver right now
                                let d = lock(&sh);
                                d.pipe.delivered_total - d.consumed
                            };
                            if retain {
                                std::mem::ManuallyDrop::into_inner(guard).retain();
                                lock(&sh).probe(P::retained_guard);
                                outcome = RecvOutcome::Msg { val, size, view_len, occupied: occ, revalidates, retained: true, drop_panic: None, invalid };
                            } else {
                                let dp = guarded(move || drop(std::mem::ManuallyDrop::into_inner(guard))).err();
                                let drop_panic = dp.map(|c| c.describe());
                                if drop_panic.is_some() {
                                    stop = true;
                                }
                                outcome = RecvOutcome::Msg { val, size, view_len, occupied: occ, revalidates, retained: false, drop_panic, invalid };
                            }
                        }
                        Err(c) => {
                            outcome = RecvOutcome::Panic(format!("guard inspection: {}", c.describe()));
                            stop = true;
                        }
                    }
                }
                Ok(Err(RecvError::Closed)) => {
                    outcome = RecvOutcome::Closed;
                    // Closed right after a *transient* read error (no end of stream seen): the
                    // application may retry, and nothing may be lost that way
                    let retry = {
                        let w = lock(&sh);
                        let r = w.recvs.last().unwrap();
                        r.saw_err_hard && !r.saw_eof && w.persistent_r.is_none()
                    };
                    retries += 1;
                    if !(retry && retries <= 8) {
                        // the end of the stream is stable: in some runs ask once more
                        let once_more = !after_closed && {
                            let mut w = lock(&sh);
                            let ex = (w.pipe.writer_closed && w.pipe.buf.is_empty()) || w.eof_at.map(|k| w.pipe.delivered_total >= k).unwrap_or(false);
                            ex && w.dec.chance(St::Policy, 1, 4)
                        };
                        if once_more {
                            after_closed = true;
                            lock(&sh).probe(P::recv_after_closed);
                        } else {
                            stop = true;
                        }
                    }
                }
                Ok(Err(RecvError::Parse(e))) => {
                    outcome = RecvOutcome::Parse(format!("{:?}@{}", e.kind, e.pos));
                    parse_seen += 1;
                    // ask once more: a parse error must be stable and must not read
                    if parse_seen >= 2 {
                        stop = true;
                    }
                }
                Ok(Err(RecvError::Read(e))) => {
                    outcome = RecvOutcome::ReadErr(err_kind_name(&e));
                    retries += 1;
                    let again = {
                        let mut w = lock(&sh);
                        w.dec.weighted(St::Policy, &[1, 3]) == 1
                    };
                    if !again || retries > 8 || e.kind() == std::io::ErrorKind::OutOfMemory && retries > 1 {
                        stop = true;
                    } else {
                        lock(&sh).probe(P::recv_retried_after_err);
                    }
                }
                Err(Caught::Stopped(_)) => {
                    outcome = RecvOutcome::InFlight;
                    stop = true;
                }
                Err(c @ Caught::Panic(..)) => {
                    outcome = RecvOutcome::Panic(c.describe());
                    stop = true;
                }
            }
            }
            let after = rx.verif_buffer().verif_state();
            lock(&sh).end_recv(outcome, after);
            if stop {
                break;
            }
        }
    });
    if let Err(c) = r {
        if let Caught::Panic(..) = c {
            let mut w = lock(&sh);
            let site = c.site();
            w.violate("", "no-panic", "panic", &site, format!("receiver party panicked outside recv(): {}", c.describe()));
        }
    }
}

// ---- async parties --------------------------------------------------------------------------

pub async fn sender_async<M: ZooMsg + ?Sized>(sh: Shared, plan: Arc<Plan>) {
    let mut sender = match plan.send_cap {
        Some(c) => AsyncSender::<M, _>::new(flatty_io::IoBuffer::new(SimAsyncWriter::new(sh.clone()), c, plan.buf_align)),
        None => AsyncSender::<M, _>::io(SimAsyncWriter::new(sh.clone()), plan.max_send),
    };
    let mut i = 0usize;
    let mut resends = 0u32;
    // see sender_blocking
    // geometry of the buffer a fresh sender hands out: the reference for every later alloc()
    let mut base_geom = (0usize, 0usize);
    if let Ok(mut ug) = sender.alloc().await {
        let b = ug.as_mut_bytes();
        base_geom = (b.len(), b.as_ptr() as usize % M::ALIGN);
        b.fill(0);
    }
    let (abandon_p, prefill) = sender_policy(&sh);
    while i < plan.msgs.len() {
        let mp = &plan.msgs[i];
        let poisoned = sender.verif_buffer().verif_state().3;
        // see sender_blocking
        if !poisoned {
            if let Some(k) = abandon_kind(&sh, abandon_p) {
                if let Ok(mut ug) = sender.alloc().await {
                    match k {
                        0 => drop(ug),
                        1 => {
                            ug.as_mut_bytes().fill(0xEE);
                            drop(ug)
                        }
                        2 => {
                            if ug.new_in_place(FailEmp).is_ok() {
                                lock(&sh).harness_error = Some("FailEmp succeeded".into());
                                return;
                            }
                        }
                        _ => drop(ug.new_in_place(emp::<M>(&mp.val))),
                    }
                }
            }
        }
        let mut ug = match sender.alloc().await {
            Ok(g) => g,
            Err(e) => {
                lock(&sh).harness_error = Some(format!("alloc failed: {}", err_kind_name(&e)));
                return;
            }
        };
        let cur_geom = {
            let b = ug.as_mut_bytes();
            (b.len(), b.as_ptr() as usize % M::ALIGN)
        };
        let ug = match prefill {
            Some(b) => {
                let mut ug = ug;
                ug.as_mut_bytes().fill(b);
                lock(&sh).probe(P::send_buffer_prefilled);
                ug
            }
            None => ug,
        };
        let built = if mp.use_default {
            ug.default_in_place()
        } else if mp.manual_init {
            let mut ug = ug;
            match M::emplace_val(ug.as_mut_bytes(), &mp.val) {
                Ok(_) => Ok(unsafe { ug.assume_init() }),
                Err(e) => Err(e),
            }
        } else {
            ug.new_in_place(emp::<M>(&mp.val))
        };
        let mut g = match built {
            Ok(g) => g,
            Err(e) => {
                if cur_geom.0 < base_geom.0 || cur_geom.1 != base_geom.1 {
                    // the planned message fits the buffer of a fresh sender; after this history alloc()
                    // hands out a shorter or differently aligned one and the message is refused
                    lock(&sh).violate("", "0-send-buffer", "shrunk-or-misaligned", "alloc", format!("message {}: alloc() handed out {} bytes at offset {} mod ALIGN (a fresh sender: {} bytes at {}), emplacement refused with {:?}", i, cur_geom.0, cur_geom.1, base_geom.0, base_geom.1, e));
                    return;
                }
                lock(&sh).harness_error = Some(format!("planned message {} does not emplace in the send buffer: {:?}", i, e));
                return;
            }
        };
        if !mp.tweaks.is_empty() {
            let mut d = Decider::from_tape(Tape { msgs: mp.tweaks.clone(), ..Default::default() });
            tweak_top::<M>(&mut *g, &mut Gen::new(&mut d, St::Msgs, 3));
        }
        let size = g.size();
        let bytes = g.as_bytes();
        if size >= bytes.len() + M::ALIGN || size != mp.len {
            lock(&sh).harness_error = Some(format!("message {}: size() {} but planned {} (view {})", i, size, mp.len, bytes.len()));
            return;
        }
        let frame = bytes[..size.min(bytes.len())].to_vec();
        let val = g.read();
        lock(&sh).begin_send(i, frame, size, val, poisoned);
        // a panic inside the await unwinds the task; the executor records it and the oracle
        // attributes it to the attempt in flight
        let res = g.send().await;
        let win = sender.verif_buffer().verif_state();
        let result = match res {
            Ok(()) => Ok(()),
            Err(e) => Err(err_kind_name(&e)),
        };
        let failed = result.is_err();
        let mut w = lock(&sh);
        w.end_send(result, None, win);
        if failed {
            let k = w.dec.weighted(St::Policy, &[1, 3, 3]);
            let pol = [AfterSendErr::Stop, AfterSendErr::ResendSame, AfterSendErr::SendNext][k];
            drop(w);
            resends += 1;
            if resends > 6 {
                return;
            }
            match pol {
                AfterSendErr::Stop => return,
                AfterSendErr::ResendSame => {
                    if !win.3 {
                        lock(&sh).probe(P::send_retried_after_err_at0);
                    }
                }
                AfterSendErr::SendNext => i += 1,
            }
        } else {
            i += 1;
        }
    }
}

pub async fn receiver_async<M: ZooMsg + ?Sized>(sh: Shared, plan: Arc<Plan>) {
    let mut rx = match plan.recv_cap {
        Some(c) => AsyncReceiver::<M, _>::new(flatty_io::IoBuffer::new(SimAsyncReader::new(sh.clone()), c, plan.buf_align)),
        None => AsyncReceiver::<M, _>::io(SimAsyncReader::new(sh.clone()), plan.max_recv),
    };
    let mut retries = 0u32;
    let mut parse_seen = 0u32;
    let mut after_closed = false;
    loop {
        {
            let mut w = lock(&sh);
            if w.recvs.len() > w.pipe.sink.len() + 64 {
                let d = format!("{} recv() calls on a {}-byte stream without reaching the end", w.recvs.len(), w.pipe.sink.len());
                w.violate("", "T1-termination", "hang:no-progress", "recv", d);
                break;
            }
        }
        let before = rx.verif_buffer().verif_state();
        lock(&sh).begin_recv(before);
        let outcome: RecvOutcome;
        let mut stop = false;
        {
        let res = rx.recv().await;
        lock(&sh).recv_returned();
        match res {
            Ok(guard) => {
                // see receiver_blocking: the guard must never be dropped implicitly
                let guard = std::mem::ManuallyDrop::new(guard);
                match inspect::<M>(&**guard) {
                Ok((size, view_len, val, revalidates, invalid)) => {
                    let retain = {
                        let mut w = lock(&sh);
                        let p = plan.retain_p;
                        p > 0 && w.dec.chance(St::Policy, p, 8)
                    };
                    let occ = {
                        let d = lock(&sh);
                        d.pipe.delivered_total - d.consumed
                    };
                    if retain {
                        std::mem::ManuallyDrop::into_inner(guard).retain();
                        lock(&sh).probe(P::retained_guard);
                        outcome = RecvOutcome::Msg { val, size, view_len, occupied: occ, revalidates, retained: true, drop_panic: None, invalid };
                    } else {
                        let dp = guarded(move || drop(std::mem::ManuallyDrop::into_inner(guard))).err();
                        let drop_panic = dp.map(|c| c.describe());
                        if drop_panic.is_some() {
                            stop = true;
                        }
                        outcome = RecvOutcome::Msg { val, size, view_len, occupied: occ, revalidates, retained: false, drop_panic, invalid };
                    }
                }
                Err(c) => {
                    outcome = RecvOutcome::Panic(format!("guard inspection: {}", c.describe()));
                    stop = true;
                }
            }
            }
            Err(RecvError::Closed) => {
                outcome = RecvOutcome::Closed;
                let retry = {
                    let w = lock(&sh);
                    let r = w.recvs.last().unwrap();
                    r.saw_err_hard && !r.saw_eof && w.persistent_r.is_none()
                };
                retries += 1;
                if !(retry && retries <= 8) {
                    let once_more = !after_closed && {
                        let mut w = lock(&sh);
                        let ex = (w.pipe.writer_closed && w.pipe.buf.is_empty()) || w.eof_at.map(|k| w.pipe.delivered_total >= k).unwrap_or(false);
                        ex && w.dec.chance(St::Policy, 1, 4)
                    };
                    if once_more {
                        after_closed = true;
                        lock(&sh).probe(P::recv_after_closed);
                    } else {
                        stop = true;
                    }
                }
            }
            Err(RecvError::Parse(e)) => {
                outcome = RecvOutcome::Parse(format!("{:?}@{}", e.kind, e.pos));
                parse_seen += 1;
                if parse_seen >= 2 {
                    stop = true;
                }
            }
            Err(RecvError::Read(e)) => {
                outcome = RecvOutcome::ReadErr(err_kind_name(&e));
                retries += 1;
                let again = {
                    let mut w = lock(&sh);
                    w.dec.weighted(St::Policy, &[1, 3]) == 1
                };
                if !again || retries > 8 || e.kind() == std::io::ErrorKind::OutOfMemory && retries > 1 {
                    stop = true;
                } else {
                    lock(&sh).probe(P::recv_retried_after_err);
                }
            }
        }
        }
        let after = rx.verif_buffer().verif_state();
        lock(&sh).end_recv(outcome, after);
        if stop {
            break;
        }
    }
}
