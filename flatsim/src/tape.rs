//! One integer decides everything: SplitMix64 sub-streams per decision label, and the
//! decision tape (what was actually decided), which is also the replay format.
//!
//! Every decision in the simulator is `draw(stream, n)` → a value in `0..n`.  In PRNG mode the
//! value comes from the stream's generator; in replay mode from the recorded tape (normalised
//! modulo what is legal at that point, benign default 0 when the tape is exhausted).  The
//! convention everywhere is **0 = the benign / simplest choice** (accept everything, deliver
//! everything, no fault, lowest-numbered party, zero value, shortest container), so shrinking a
//! tape towards zeros and towards shorter lists simplifies the run.

use serde::{Deserialize, Serialize};

#[derive(Clone, Debug)]
pub struct SplitMix64(pub u64);

impl SplitMix64 {
    #[inline]
    pub fn next_u64(&mut self) -> u64 {
        self.0 = self.0.wrapping_add(0x9E37_79B9_7F4A_7C15);
        let mut z = self.0;
        z = (z ^ (z >> 30)).wrapping_mul(0xBF58_476D_1CE4_E5B9);
        z = (z ^ (z >> 27)).wrapping_mul(0x94D0_49BB_1331_11EB);
        z ^ (z >> 31)
    }
    /// Uniform in `0..n`, `n >= 1`.
    #[inline]
    pub fn below(&mut self, n: u32) -> u32 {
        debug_assert!(n >= 1);
        ((self.next_u64() >> 32).wrapping_mul(n as u64) >> 32) as u32
    }
    #[inline]
    pub fn chance(&mut self, num: u32, den: u32) -> bool {
        self.below(den) < num
    }
    /// Index drawn proportionally to `w` (sum > 0).
    pub fn weighted(&mut self, w: &[u32]) -> usize {
        let total: u32 = w.iter().sum();
        let mut x = self.below(total.max(1));
        for (i, &wi) in w.iter().enumerate() {
            if x < wi {
                return i;
            }
            x -= wi;
        }
        0
    }
}

pub fn mix(a: u64, b: u64) -> u64 {
    let mut s = SplitMix64(a ^ b.wrapping_mul(0xD6E8_FEB8_6659_FD93).rotate_left(17));
    s.next_u64();
    s.next_u64()
}

#[derive(Clone, Copy, Debug, PartialEq, Eq, Hash)]
#[repr(usize)]
pub enum St {
    /// per-run configuration knobs (buffer sizes, pipe capacity, swarm selection of fault kinds)
    Cfg = 0,
    /// message values and builder operations
    Msgs,
    /// which enabled party / woken task runs next
    Sched,
    /// how many bytes a write call accepts
    WChunk,
    /// how many bytes a read call delivers
    RChunk,
    /// write-side faults (Ok(0), Err(kind), persistent)
    WFault,
    /// read-side faults (Err(kind), EOF placement)
    RFault,
    /// poll_flush outcomes
    Flush,
    /// spurious Pending + wake delays
    Pend,
    /// hostile byte streams (C10) and suffixes (C06)
    Bytes,
    /// harness reaction policy (retry / resend / stop, retain)
    Policy,
}
pub const NST: usize = 11;
pub const ST_NAMES: [&str; NST] = [
    "cfg", "msgs", "sched", "wchunk", "rchunk", "wfault", "rfault", "flush", "pend", "bytes", "policy",
];

#[derive(Clone, Debug, Default, PartialEq, Eq, Serialize, Deserialize)]
pub struct Tape {
    #[serde(default)]
    pub cfg: Vec<u32>,
    #[serde(default)]
    pub msgs: Vec<u32>,
    #[serde(default)]
    pub sched: Vec<u32>,
    #[serde(default)]
    pub wchunk: Vec<u32>,
    #[serde(default)]
    pub rchunk: Vec<u32>,
    #[serde(default)]
    pub wfault: Vec<u32>,
    #[serde(default)]
    pub rfault: Vec<u32>,
    #[serde(default)]
    pub flush: Vec<u32>,
    #[serde(default)]
    pub pend: Vec<u32>,
    #[serde(default)]
    pub bytes: Vec<u32>,
    #[serde(default)]
    pub policy: Vec<u32>,
}

impl Tape {
    pub fn get(&self, i: usize) -> &Vec<u32> {
        match i {
            0 => &self.cfg,
            1 => &self.msgs,
            2 => &self.sched,
            3 => &self.wchunk,
            4 => &self.rchunk,
            5 => &self.wfault,
            6 => &self.rfault,
            7 => &self.flush,
            8 => &self.pend,
            9 => &self.bytes,
            _ => &self.policy,
        }
    }
    pub fn get_mut(&mut self, i: usize) -> &mut Vec<u32> {
        match i {
            0 => &mut self.cfg,
            1 => &mut self.msgs,
            2 => &mut self.sched,
            3 => &mut self.wchunk,
            4 => &mut self.rchunk,
            5 => &mut self.wfault,
            6 => &mut self.rfault,
            7 => &mut self.flush,
            8 => &mut self.pend,
            9 => &mut self.bytes,
            _ => &mut self.policy,
        }
    }
    pub fn total_len(&self) -> usize {
        (0..NST).map(|i| self.get(i).len()).sum()
    }
    pub fn weight(&self) -> u64 {
        (0..NST).map(|i| self.get(i).iter().map(|&x| x as u64 + 1).sum::<u64>()).sum()
    }
}

pub struct Decider {
    rng: Option<Vec<SplitMix64>>,
    src: Tape,
    pos: [usize; NST],
    /// the decisions actually taken (normalised) – this *is* the replay file
    pub rec: Tape,
}

impl Decider {
    pub fn from_seed(seed: u64) -> Self {
        let rng = (0..NST).map(|i| SplitMix64(mix(seed, 0x5EED_0000 + i as u64))).collect();
        Decider { rng: Some(rng), src: Tape::default(), pos: [0; NST], rec: Tape::default() }
    }
    pub fn from_tape(t: Tape) -> Self {
        Decider { rng: None, src: t, pos: [0; NST], rec: Tape::default() }
    }
    pub fn is_replay(&self) -> bool {
        self.rng.is_none()
    }

    /// The one primitive.  A decision in `0..n` (`n >= 1`); `n == 1` is no decision and is not
    /// recorded.  `f` produces the value in PRNG mode and may use any distribution.
    #[inline]
    pub fn draw(&mut self, st: St, n: u32, f: impl FnOnce(&mut SplitMix64) -> u32) -> u32 {
        if n <= 1 {
            return 0;
        }
        let i = st as usize;
        let v = match &mut self.rng {
            Some(r) => {
                let v = f(&mut r[i]);
                if v < n {
                    v
                } else {
                    v % n
                }
            }
            None => {
                let s = self.src.get(i);
                let v = if self.pos[i] < s.len() { s[self.pos[i]] } else { 0 };
                self.pos[i] += 1;
                if v < n {
                    v
                } else {
                    v % n
                }
            }
        };
        self.rec.get_mut(i).push(v);
        v
    }
    #[inline]
    pub fn below(&mut self, st: St, n: u32) -> u32 {
        self.draw(st, n, |r| r.below(n))
    }
    /// `w[0]` must be non-zero and denote the benign option; options with zero weight are never
    /// returned (a replayed tape naming one falls back to option 0).
    pub fn weighted(&mut self, st: St, w: &[u32]) -> usize {
        let live = w.iter().filter(|&&x| x > 0).count();
        if live <= 1 {
            return w.iter().position(|&x| x > 0).unwrap_or(0);
        }
        let n = w.len() as u32;
        let i = st as usize;
        let v = match &mut self.rng {
            Some(r) => r[i].weighted(w) as u32,
            None => {
                let s = self.src.get(i);
                let v = if self.pos[i] < s.len() { s[self.pos[i]] } else { 0 };
                self.pos[i] += 1;
                let v = v % n;
                if w[v as usize] == 0 {
                    w.iter().position(|&x| x > 0).unwrap_or(0) as u32
                } else {
                    v
                }
            }
        };
        self.rec.get_mut(i).push(v);
        v as usize
    }
    #[inline]
    pub fn chance(&mut self, st: St, num: u32, den: u32) -> bool {
        if num == 0 {
            return false;
        }
        if num >= den {
            return true;
        }
        self.draw(st, 2, |r| r.chance(num, den) as u32) == 1
    }
    /// Uniform in `lo..=hi`, recorded as offset from `lo`.
    pub fn range(&mut self, st: St, lo: u32, hi: u32) -> u32 {
        lo + self.below(st, hi - lo + 1)
    }
}

/// FNV-1a based running hash for event logs.
#[derive(Clone, Copy, Debug)]
pub struct Fnv(pub u64);
impl Default for Fnv {
    fn default() -> Self {
        Fnv(0xcbf2_9ce4_8422_2325)
    }
}
impl Fnv {
    #[inline]
    pub fn u64(&mut self, x: u64) {
        let mut h = self.0;
        for b in x.to_le_bytes() {
            h ^= b as u64;
            h = h.wrapping_mul(0x0000_0100_0000_01B3);
        }
        self.0 = h;
    }
    pub fn bytes(&mut self, bs: &[u8]) {
        let mut h = self.0;
        for &b in bs {
            h ^= b as u64;
            h = h.wrapping_mul(0x0000_0100_0000_01B3);
        }
        self.0 = h;
    }
}
