//! Abstract message values: used to *generate* message contents and to *compare* two deep
//! reads (sender-side read-back versus receiver-side read).  Never a reference codec.

use crate::tape::{Decider, St};
use serde::{Deserialize, Serialize};

#[derive(Clone, Debug, PartialEq, Eq, Serialize, Deserialize)]
pub enum Val {
    /// integer of any width / signedness
    I(i128),
    /// float by bit pattern
    F(u64),
    B(bool),
    /// C-like enum discriminant / small tag
    T(u32),
    S(String),
    /// sequence (vector elements, array, flex items)
    L(Vec<Val>),
    /// record (struct fields in order)
    R(Vec<Val>),
    /// enum variant with fields
    V(u32, Vec<Val>),
}

impl Val {
    pub fn int(&self) -> i128 {
        match self {
            Val::I(x) => *x,
            Val::T(x) => *x as i128,
            Val::B(b) => *b as i128,
            _ => 0,
        }
    }
    pub fn bits(&self) -> u64 {
        match self {
            Val::F(x) => *x,
            _ => 0,
        }
    }
    pub fn boolean(&self) -> bool {
        matches!(self, Val::B(true))
    }
    pub fn tag(&self) -> u32 {
        match self {
            Val::T(x) => *x,
            Val::V(x, _) => *x,
            _ => 0,
        }
    }
    pub fn list(&self) -> &[Val] {
        match self {
            Val::L(v) | Val::R(v) | Val::V(_, v) => v,
            _ => &[],
        }
    }
    pub fn field(&self, i: usize) -> &Val {
        static ZERO: Val = Val::I(0);
        self.list().get(i).unwrap_or(&ZERO)
    }
    pub fn str(&self) -> &str {
        match self {
            Val::S(s) => s,
            _ => "",
        }
    }
    /// Truncate every sequence / string to at most `n` elements (bytes for strings, on a char
    /// boundary).  Used by the planner to make a generated value fit `max_msg_len`.
    pub fn clamp(&self, n: usize) -> Val {
        match self {
            Val::L(v) => Val::L(v.iter().take(n).map(|x| x.clamp(n)).collect()),
            Val::R(v) => Val::R(v.iter().map(|x| x.clamp(n)).collect()),
            Val::V(t, v) => Val::V(*t, v.iter().map(|x| x.clamp(n)).collect()),
            Val::S(s) => {
                let mut k = n.min(s.len());
                while !s.is_char_boundary(k) {
                    k -= 1;
                }
                Val::S(s[..k].to_string())
            }
            other => other.clone(),
        }
    }
    pub fn max_len(&self) -> usize {
        match self {
            Val::L(v) => v.len().max(v.iter().map(|x| x.max_len()).max().unwrap_or(0)),
            Val::R(v) | Val::V(_, v) => v.iter().map(|x| x.max_len()).max().unwrap_or(0),
            Val::S(s) => s.len(),
            _ => 0,
        }
    }
    pub fn short(&self) -> String {
        let s = format!("{:?}", self);
        if s.len() > 160 {
            format!("{}…", &s[..s.char_indices().take_while(|(i, _)| *i < 160).last().map(|(i, _)| i).unwrap_or(0)])
        } else {
            s
        }
    }
}

thread_local! {
    static BOUNDARY: core::cell::Cell<u8> = const { core::cell::Cell::new(0) };
}
pub fn boundary_mode() -> u8 {
    BOUNDARY.with(|b| b.get())
}
pub fn set_boundary_mode(m: u8) {
    BOUNDARY.with(|b| b.set(m));
}

/// Value generator drawing from one tape stream.
pub struct Gen<'a> {
    pub d: &'a mut Decider,
    pub st: St,
    /// upper bound for container lengths in this value
    pub scale: usize,
}

const ALPHABET: [&str; 8] = ["a", "Z", "0", " ", "é", "€", "😀", "\u{0}"];

impl<'a> Gen<'a> {
    pub fn new(d: &'a mut Decider, st: St, scale: usize) -> Self {
        Gen { d, st, scale }
    }
    pub fn pick(&mut self, n: u32) -> u32 {
        self.d.below(self.st, n)
    }
    pub fn weighted(&mut self, w: &[u32]) -> usize {
        self.d.weighted(self.st, w)
    }
    pub fn chance(&mut self, num: u32, den: u32) -> bool {
        self.d.chance(self.st, num, den)
    }
    /// Integer of `bits` width.  0 (first option) is the simplest.
    pub fn int(&mut self, bits: u32, signed: bool) -> i128 {
        let kind = self.weighted(&[3, 2, 2, 2, 1, 4]);
        let (min, max): (i128, i128) = if signed {
            (-(1i128 << (bits - 1)), (1i128 << (bits - 1)) - 1)
        } else {
            (0, if bits >= 127 { i128::MAX } else { (1i128 << bits) - 1 })
        };
        match kind {
            0 => 0,
            1 => 1,
            2 => max,
            3 => min,
            4 => {
                if signed {
                    -1
                } else {
                    max - 1
                }
            }
            _ => {
                let r = self.d.below(self.st, u32::MAX) as u64;
                let x = r.wrapping_mul(0x9E37_79B9_7F4A_7C15) ^ (r << 13);
                let span = (max - min) as u128 + 1;
                min + ((x as u128 | ((x as u128) << 64)) % span.max(1)) as i128
            }
        }
    }
    pub fn f32bits(&mut self) -> u64 {
        let k = self.weighted(&[3, 2, 1, 1, 1, 3, 1]);
        (match k {
            0 => 0.0f32.to_bits(),
            1 => 1.5f32.to_bits(),
            2 => f32::NAN.to_bits() | 0x1234,
            3 => f32::NEG_INFINITY.to_bits(),
            4 => (-0.0f32).to_bits(),
            5 => self.d.below(self.st, u32::MAX),
            // signalling NaN
            _ => 0x7FA0_0001,
        }) as u64
    }
    pub fn f64bits(&mut self) -> u64 {
        let k = self.weighted(&[3, 2, 1, 1, 1, 3, 1]);
        match k {
            0 => 0.0f64.to_bits(),
            1 => 1.5f64.to_bits(),
            2 => f64::NAN.to_bits() | 0x1234_5678,
            3 => f64::NEG_INFINITY.to_bits(),
            4 => (-0.0f64).to_bits(),
            5 => (self.d.below(self.st, u32::MAX) as u64).wrapping_mul(0x9E37_79B9_7F4A_7C15),
            // signalling NaN
            _ => 0x7FF4_0000_0000_0001,
        }
    }
    pub fn boolean(&mut self) -> bool {
        self.pick(2) == 1
    }
    /// A container length in `0..=scale` (0 simplest; "full" = scale is a frequent choice so that
    /// the planner's clamp produces messages that exactly fill `max_msg_len`).
    pub fn len(&mut self) -> usize {
        let s = self.scale as u32;
        // boundary mode (set per run by the planner): most lengths sit right at the maximum of
        // a u8 (1) or u16 (2) length / offset type
        match boundary_mode() {
            1 if self.scale >= 255 && self.chance(3, 5) => return 246 + self.d.below(self.st, 12) as usize,
            2 if self.scale >= 65535 && self.chance(3, 5) => return 65526 + self.d.below(self.st, 12) as usize,
            _ => {}
        }
        // when the scale allows it, lengths right at the maximum of a u8 / u16 length or offset
        // type are a choice of their own
        let b8 = if self.scale >= 255 { 2 } else { 0 };
        let b16 = if self.scale >= 65535 { 3 } else { 0 };
        match self.weighted(&[3, 3, 2, 2, 3, 3, b8, b16]) {
            0 => 0,
            1 => 1.min(self.scale),
            2 => 2.min(self.scale),
            3 => 3.min(self.scale),
            4 => self.scale,
            5 => self.d.below(self.st, s + 1) as usize,
            6 => 248 + self.d.below(self.st, 10) as usize,
            _ => 65526 + self.d.below(self.st, 12) as usize,
        }
    }
    /// Shorter length for nested containers.
    pub fn small_len(&mut self) -> usize {
        let s = self.scale.min(5) as u32;
        self.d.below(self.st, s + 1) as usize
    }
    pub fn string(&mut self, max_bytes: usize) -> String {
        let mut s = String::new();
        loop {
            let c = ALPHABET[self.weighted(&[6, 2, 2, 1, 2, 2, 1, 1])];
            if s.len() + c.len() > max_bytes {
                break;
            }
            s.push_str(c);
        }
        s
    }
}

/// An aligned copy of `bytes` (never a zero-sized allocation); use `&a.0[..a.1]`.
pub struct Acopy(pub flatty::AlignedBytes, pub usize);
impl Acopy {
    pub fn new(bytes: &[u8], align: usize) -> Self {
        // slack behind the copy: a mapped unsized struct rounds its extent up to ALIGN and may
        // span a few bytes more than the slice it was mapped from (C04 territory); keep that
        // inside the allocation so that the Miri tier judges C06/C10 and not C04
        let mut a = flatty::AlignedBytes::new(bytes.len() + 2 * align.max(1), align.max(1));
        a.fill(0);
        a[..bytes.len()].copy_from_slice(bytes);
        Acopy(a, bytes.len())
    }
}
impl core::ops::Deref for Acopy {
    type Target = [u8];
    fn deref(&self) -> &[u8] {
        &self.0[..self.1]
    }
}
