//! The simulated world: the byte pipe between the two parties, the fault injector, the event
//! log, the probes and the per-call watchdog counters.  One `World` per run, owned by the
//! simulator; the parties (real flatty-io code) reach it only through the pipe ends.

use crate::tape::{Decider, Fnv, St};
use crate::val::Val;
use serde::Serialize;
use std::collections::VecDeque;
use std::io;
use std::sync::{Arc, Mutex, MutexGuard};
use std::task::Waker;

pub type Shared = Arc<Mutex<World>>;

pub fn lock(sh: &Shared) -> MutexGuard<'_, World> {
    match sh.lock() {
        Ok(g) => g,
        Err(p) => p.into_inner(),
    }
}

/// Payload of the panic with which the simulator stops a party from inside a pipe call
/// (budget exceeded, run aborted).  Never a library panic.
pub struct SimStop(pub &'static str);

// ---------------------------------------------------------------------------------------------
// probes / counters

macro_rules! probes {
    ($($name:ident),* $(,)?) => {
        #[allow(non_camel_case_types)]
        #[derive(Clone, Copy, Debug, PartialEq, Eq)]
        #[repr(usize)]
        pub enum P { $($name),* , _COUNT }
        pub const PROBE_NAMES: [&str; P::_COUNT as usize] = [$(stringify!($name)),*];
    };
}

probes! {
    // fault kinds fired (not merely configured)
    w_short, w_zero_at0, w_zero_mid, w_err_at0, w_err_mid, w_err_interrupted, w_err_persistent, w_peer_gone,
    w_pending, w_pending_delayed,
    r_short, r_one_byte, r_err, r_err_interrupted, r_err_persistent, r_eof_boundary, r_eof_mid, r_pending, r_pending_delayed,
    f_pending, f_err, f_ok,
    data_bitflip, data_overwrite, data_truncate, data_garbage, data_header_aim, data_framed_corruption,
    // reach probes
    read_ended_in_trailing_padding, read_ended_in_header, two_msgs_coalesced_in_one_read, validate_with_start_gt0,
    make_contiguous_ran, oom_returned, poisoned_set, recv_retried_after_err, send_retried_after_err_at0,
    send_on_poisoned_refused, retained_guard, msg_with_trailing_padding, msg_at_max_len, default_in_place_used,
    tweaks_applied, producer_left_invalid_message, producer_panicked, producer_wrote_outside_buffer, value_clamped_to_fit,
    spurious_poll, delayed_wake_fired, sched_switch, pipe_full_block, pipe_empty_block,
    parse_err_returned, closed_returned, msgs_delivered, msgs_sent_ok, aim_unconfirmed, aim_confirmed,
    prefix_accepted_padding_exception, hostile_guard_handed_out,
    abandoned_guard, failed_emplace_then_send, send_buffer_prefilled, recv_after_closed, unvalidated_value_sent,
}

pub type Stats = [u64; P::_COUNT as usize];

// ---------------------------------------------------------------------------------------------
// knobs (per-run configuration, drawn from the `cfg` stream – swarm style)

#[derive(Clone, Debug, Serialize)]
pub struct Knobs {
    pub pipe_cap: usize,
    /// 0 = accept/deliver everything offered, 1 = one byte at a time, 2 = uniformly random,
    /// 3 = biased to message boundaries (boundary, boundary±1, inside padding)
    pub wchunk_mode: u8,
    pub rchunk_mode: u8,
    /// 0 uniform, 1 sender-first, 2 receiver-first, 3 sticky
    pub sched_mode: u8,
    /// per-call fault probabilities out of 1024 (0 = kind disabled in this run)
    pub p_w_err: u32,
    pub p_w_zero: u32,
    pub p_r_err: u32,
    pub p_r_eof_mid: u32,
    pub p_pend: u32,
    pub p_f_pend: u32,
    pub p_f_err: u32,
    /// probability (of 1024) that an injected error persists for all later calls
    pub p_persist: u32,
    /// bitmask of io::ErrorKind indices usable in this run
    pub err_kinds: u32,
    /// cap on injected faults per run (most runs make real progress between faults)
    pub max_faults: u32,
    pub spurious_polls: bool,
    pub max_wake_delay: u32,
}

impl Knobs {
    pub fn benign(pipe_cap: usize) -> Self {
        Knobs {
            pipe_cap,
            wchunk_mode: 0,
            rchunk_mode: 0,
            sched_mode: 0,
            p_w_err: 0,
            p_w_zero: 0,
            p_r_err: 0,
            p_r_eof_mid: 0,
            p_pend: 0,
            p_f_pend: 0,
            p_f_err: 0,
            p_persist: 0,
            err_kinds: 0,
            max_faults: 0,
            spurious_polls: false,
            max_wake_delay: 0,
        }
    }
}

pub const ERR_KINDS: [io::ErrorKind; 16] = [
    io::ErrorKind::Interrupted,
    io::ErrorKind::WouldBlock,
    io::ErrorKind::TimedOut,
    io::ErrorKind::BrokenPipe,
    io::ErrorKind::ConnectionReset,
    io::ErrorKind::ConnectionAborted,
    io::ErrorKind::WriteZero,
    io::ErrorKind::OutOfMemory,
    io::ErrorKind::Other,
    io::ErrorKind::Unsupported,
    io::ErrorKind::UnexpectedEof,
    io::ErrorKind::InvalidInput,
    io::ErrorKind::InvalidData,
    io::ErrorKind::NotConnected,
    io::ErrorKind::PermissionDenied,
    io::ErrorKind::ConnectionRefused,
];

// ---------------------------------------------------------------------------------------------
// events

#[derive(Clone, Copy, Debug, PartialEq, Eq, Serialize)]
pub enum Op {
    Start,
    Write,
    Read,
    Flush,
    SendBegin,
    SendEnd,
    RecvBegin,
    RecvEnd,
    GuardDrop,
    Poll,
    Timer,
    Done,
}

#[derive(Clone, Copy, Debug, PartialEq, Eq, Serialize)]
pub enum Out {
    None,
    Ok,
    Short,
    Zero,
    Err,
    ErrPersistent,
    Eof,
    Pending,
    PendingDelayed,
    PendingGenuine,
    PeerGone,
    Msg,
    Parse,
    ReadErr,
    Closed,
    Panic,
    Ready,
    Spurious,
}

#[derive(Clone, Copy, Debug, Serialize)]
pub struct Ev {
    pub party: u8,
    pub op: Op,
    pub out: Out,
    pub n: u32,
    pub aux: u32,
}

// ---------------------------------------------------------------------------------------------
// history records (what the oracles read)

#[derive(Clone, Debug, Serialize)]
pub struct Attempt {
    pub msg_index: usize,
    #[serde(skip)]
    pub frame: Vec<u8>,
    pub frame_len: usize,
    pub val: Val,
    pub sink_start: usize,
    pub accepted: usize,
    /// None while in flight; Some(Ok) / Some(Err(kind))
    pub result: Option<Result<(), String>>,
    pub panicked: Option<String>,
    /// the pipe returned Ok(0) or Err(kind != Interrupted) during this attempt
    pub saw_fail: bool,
    pub saw_interrupted: bool,
    pub calls: u32,
    pub nonprogress: u32,
    pub poisoned_before: bool,
    pub poisoned_after: bool,
    /// async: a poll_flush returned Ready(Ok) after the last byte of this frame was accepted
    pub flushed_after_last: bool,
    pub accepted_total_at_end: usize,
    pub flushed_through_at_end: usize,
}

#[derive(Clone, Debug, Serialize)]
pub enum RecvOutcome {
    Msg { val: Val, size: usize, view_len: usize, occupied: usize, revalidates: bool, retained: bool, drop_panic: Option<String>, invalid: Option<String> },
    Parse(String),
    ReadErr(String),
    Closed,
    Panic(String),
    InFlight,
    /// C10 silent peer: the receiver was (legitimately) waiting for more input when the run ended
    Waiting,
}

#[derive(Clone, Debug, Serialize)]
pub struct RecvRec {
    pub outcome: RecvOutcome,
    pub calls: u32,
    pub nonprogress: u32,
    pub delivered_at_start: usize,
    pub delivered_at_end: usize,
    pub consumed_before: usize,
    pub consumed_after: usize,
    pub saw_err: bool,
    pub saw_err_hard: bool,
    /// at the end of the call: the writer had gone away and every accepted byte had been delivered
    pub stream_exhausted: bool,
    pub saw_eof: bool,
    /// (start, end, capacity, poisoned) after the call (and after the guard was dropped)
    pub window_after: (usize, usize, usize, bool),
    pub window_before: (usize, usize, usize, bool),
}

#[derive(Clone, Debug, Serialize, PartialEq, Eq)]
pub struct Violation {
    pub property: String,
    /// oracle id, e.g. "C07.2-sequence"
    pub oracle: String,
    /// failure kind (stable across shrinking): e.g. "panic", "hang", "mismatch"
    pub kind: String,
    /// panic location or library call, when known (part of the signature)
    pub site: String,
    pub detail: String,
}

impl Violation {
    pub fn signature(&self) -> String {
        format!("{}|{}|{}|{}", self.property, self.oracle, self.kind, self.site)
    }
}

// ---------------------------------------------------------------------------------------------
// the pipe

pub struct Pipe {
    pub buf: VecDeque<u8>,
    pub cap: usize,
    pub writer_closed: bool,
    pub reader_closed: bool,
    /// everything ever accepted from the writer (or pre-loaded by a hostile peer)
    pub sink: Vec<u8>,
    pub accepted_total: usize,
    pub delivered_total: usize,
    pub flushed_through: usize,
    pub read_waker: Option<Waker>,
    pub write_waker: Option<Waker>,
}

#[derive(Clone, Copy, Debug, PartialEq, Eq)]
pub enum WPlan {
    Normal,
    Zero,
    Err(usize, bool),
    /// async only: spurious Pending with wake delay (0 = immediate)
    Pending(u32),
}

#[derive(Clone, Copy, Debug, PartialEq, Eq)]
pub enum RPlan {
    Normal,
    Err(usize, bool),
    Pending(u32),
}

/// Systematic single-fault placement (C09): the `index`-th call on `side` gets this outcome.
#[derive(Clone, Copy, Debug, PartialEq, Eq, Serialize, serde::Deserialize)]
pub struct Forced {
    /// 0 = write, 1 = read, 2 = flush
    pub side: u8,
    pub index: u32,
    /// write: 0 = Ok(0), 1.. = Err(kind-1); read: 0 = EOF here (sender crash), 1.. = Err(kind-1); flush: 0 = Pending, 1 = Err
    pub what: u32,
    pub persistent: bool,
}

pub const SENDER: u8 = 0;
pub const RECEIVER: u8 = 1;

pub struct World {
    pub dec: Decider,
    pub knobs: Knobs,
    pub pipe: Pipe,
    pub log: Vec<Ev>,
    pub keep_log: bool,
    pub full_hash: Fnv,
    pub shape_hash: Fnv,
    pub state_hashes: Vec<u64>,
    pub stats: Stats,
    pub faults_fired: u32,
    pub ticks: u64,

    pub attempts: Vec<Attempt>,
    pub in_send: bool,
    pub recvs: Vec<RecvRec>,
    pub in_recv: bool,
    /// bytes consumed by dropped guards so far (sum of size())
    pub consumed: usize,
    pub recv_capacity: usize,

    pub persistent_w: Option<usize>,
    pub persistent_r: Option<usize>,
    pub wplan: Option<WPlan>,
    pub rplan: Option<RPlan>,
    /// scripted EOF: reader sees end-of-stream once `delivered_total` reaches this, even if
    /// the writer is still open (sender crash at byte k)
    pub eof_at: Option<usize>,
    /// hostile / preloaded mode: frame boundaries in the sink known to the harness
    pub frame_bounds: Vec<(usize, usize)>,
    /// padding start (absolute sink offset) for each frame in frame_bounds (end if none)
    pub frame_pad_start: Vec<usize>,
    pub align: usize,

    /// systematic layer: a write must stop at this absolute sink offset / a read at this
    /// absolute delivered offset (two-chunk compositions)
    pub split_w: Option<usize>,
    pub split_r: Option<usize>,
    /// C10: the hostile peer stays connected and silent after its last byte.  A receiver that
    /// then waits for more input is fine (it is ended quietly) – unless it waits with a
    /// zero-length read buffer, i.e. with no room left: that can never complete and must have
    /// been reported as buffer exhaustion.
    pub silent_peer: bool,
    /// length of the buffer offered by the read call on which the reader is parked (genuine Pending)
    pub reader_parked_cap: Option<usize>,
    pub abort: bool,
    pub prop: &'static str,
    pub forced: Option<Forced>,
    pub w_calls: u32,
    pub r_calls: u32,
    pub f_calls: u32,
    pub violation: Option<Violation>,
    pub harness_error: Option<String>,

    // async world
    pub now: u64,
    pub timer_seq: u64,
    pub timers: std::collections::BinaryHeap<std::cmp::Reverse<(u64, u64, u8)>>,
    pub timer_wakers: Vec<(u64, Waker)>,
    pub cur_party: u8,
}

impl World {
    pub fn new(dec: Decider, knobs: Knobs, keep_log: bool) -> Self {
        let cap = knobs.pipe_cap;
        World {
            dec,
            knobs,
            pipe: Pipe {
                buf: VecDeque::new(),
                cap,
                writer_closed: false,
                reader_closed: false,
                sink: Vec::new(),
                accepted_total: 0,
                delivered_total: 0,
                flushed_through: 0,
                read_waker: None,
                write_waker: None,
            },
            log: Vec::new(),
            keep_log,
            full_hash: Fnv::default(),
            shape_hash: Fnv::default(),
            state_hashes: Vec::new(),
            stats: [0; P::_COUNT as usize],
            faults_fired: 0,
            ticks: 0,
            attempts: Vec::new(),
            in_send: false,
            recvs: Vec::new(),
            in_recv: false,
            consumed: 0,
            recv_capacity: 0,
            persistent_w: None,
            persistent_r: None,
            wplan: None,
            rplan: None,
            eof_at: None,
            frame_bounds: Vec::new(),
            frame_pad_start: Vec::new(),
            align: 1,
            split_w: None,
            split_r: None,
            silent_peer: false,
            reader_parked_cap: None,
            abort: false,
            prop: "",
            forced: None,
            w_calls: 0,
            r_calls: 0,
            f_calls: 0,
            violation: None,
            harness_error: None,
            now: 0,
            timer_seq: 0,
            timers: Default::default(),
            timer_wakers: Vec::new(),
            cur_party: 0,
        }
    }

    #[inline]
    pub fn probe(&mut self, p: P) {
        self.stats[p as usize] += 1;
    }

    pub fn ev(&mut self, party: u8, op: Op, out: Out, n: u32, aux: u32) {
        self.ticks += 1;
        let code = ((party as u64) << 56) | ((op as u64) << 48) | ((out as u64) << 40);
        self.shape_hash.u64(code);
        self.full_hash.u64(code | (n as u64 & 0xFFFFF) << 20 | (aux as u64 & 0xFFFFF));
        if self.keep_log {
            self.log.push(Ev { party, op, out, n, aux });
        }
    }

    pub fn violate(&mut self, property: &str, oracle: &str, kind: &str, site: &str, detail: String) {
        if self.violation.is_none() {
            let property = if property.is_empty() { self.prop } else { property };
            self.violation = Some(Violation {
                property: property.to_string(),
                oracle: oracle.to_string(),
                kind: kind.to_string(),
                site: site.to_string(),
                detail,
            });
        }
    }

    pub fn note_state(&mut self, w: (usize, usize, usize, bool)) {
        let mut h = Fnv::default();
        h.u64(w.0 as u64);
        h.u64(w.1 as u64);
        h.u64(self.pipe.buf.len() as u64);
        h.u64(self.attempts.len() as u64);
        h.u64(self.recvs.len() as u64);
        h.u64(w.3 as u64);
        self.state_hashes.push(h.0);
    }

    // ---- watchdog ---------------------------------------------------------------------------

    /// Called at the start of every pipe call made by `party`.  Panics with `SimStop` when the
    /// run is being aborted or the library call in progress has exceeded its pipe-call budget.
    pub fn pre_call(&mut self, party: u8) {
        if self.abort {
            std::panic::panic_any(SimStop("abort"));
        }
        if party == SENDER {
            if self.in_send {
                let a = self.attempts.last_mut().unwrap();
                a.calls += 1;
                let budget = 4 * a.frame_len as u32 + 4 * a.nonprogress + 64;
                if a.calls > budget {
                    let d = format!(
                        "send() of a {}-byte message made {} pipe calls (budget {}), {} bytes accepted: no bounded termination",
                        a.frame_len, a.calls, budget, a.accepted
                    );
                    self.violate("", "T1-termination", "hang:pipe-call-budget", "send", d);
                    self.abort = true;
                    std::panic::panic_any(SimStop("budget"));
                }
            }
        } else if self.in_recv {
            let cap = self.recv_capacity as u32;
            let r = self.recvs.last_mut().unwrap();
            r.calls += 1;
            let budget = 2 * cap + 4 * r.nonprogress + 64;
            if r.calls > budget {
                let d = format!("recv() made {} pipe calls (budget {}): spinning", r.calls, budget);
                self.violate("", "T1-termination", "hang:pipe-call-budget", "recv", d);
                self.abort = true;
                std::panic::panic_any(SimStop("budget"));
            }
        }
    }

    fn fault_allowed(&self) -> bool {
        self.faults_fired < self.knobs.max_faults
    }

    fn pick_err_kind(&mut self, st: St, allow_interrupted: bool) -> usize {
        let mut mask = self.knobs.err_kinds;
        if !allow_interrupted {
            mask &= !1;
        }
        if mask == 0 {
            mask = 1 << 4;
        }
        let live: Vec<usize> = (0..ERR_KINDS.len()).filter(|i| mask & (1 << i) != 0).collect();
        let k = self.dec.below(st, live.len() as u32) as usize;
        live[k]
    }

    // ---- write side -------------------------------------------------------------------------

    /// Decide (at request time) whether this write call is hit by a fault.
    pub fn plan_write(&mut self, offered: usize, is_async: bool) -> WPlan {
        let idx = self.w_calls;
        self.w_calls += 1;
        if let Some(k) = self.persistent_w {
            return WPlan::Err(k, true);
        }
        if let Some(f) = self.forced {
            if f.side == 0 && f.index == idx {
                self.faults_fired += 1;
                if f.what == 0 {
                    return WPlan::Zero;
                }
                let kind = (f.what as usize - 1) % ERR_KINDS.len();
                if f.persistent {
                    self.persistent_w = Some(kind);
                }
                return WPlan::Err(kind, f.persistent);
            }
        }
        if self.pipe.reader_closed {
            return WPlan::Normal;
        }
        let (at0, near_end) = match self.attempts.last() {
            Some(a) if self.in_send => (a.accepted == 0, a.frame_len.saturating_sub(a.accepted) <= self.align.max(2)),
            _ => (false, false),
        };
        let hot = if at0 || near_end { 6 } else { 1 };
        if self.fault_allowed() {
            let pe = (self.knobs.p_w_err * hot).min(900);
            let pz = (self.knobs.p_w_zero * hot).min(900);
            let pp = if is_async { self.knobs.p_pend } else { 0 };
            if pe + pz + pp > 0 {
                let k = self.dec.weighted(St::WFault, &[1024u32.saturating_sub(pe + pz + pp).max(1), pe, pz, pp]);
                match k {
                    1 => {
                        let persistent = self.dec.chance(St::WFault, self.knobs.p_persist, 1024);
                        let kind = self.pick_err_kind(St::WFault, true);
                        self.faults_fired += 1;
                        if persistent {
                            self.persistent_w = Some(kind);
                        }
                        return WPlan::Err(kind, persistent);
                    }
                    2 => {
                        self.faults_fired += 1;
                        return WPlan::Zero;
                    }
                    3 => {
                        self.faults_fired += 1;
                        let delay = if self.knobs.max_wake_delay > 0 { self.dec.below(St::Pend, self.knobs.max_wake_delay + 1) } else { 0 };
                        return WPlan::Pending(delay);
                    }
                    _ => {}
                }
            }
        }
        let _ = offered;
        WPlan::Normal
    }

    pub fn write_enabled(&self, plan: WPlan) -> bool {
        match plan {
            WPlan::Normal => self.pipe.buf.len() < self.pipe.cap || self.pipe.reader_closed,
            _ => true,
        }
    }

    fn chunk(&mut self, st: St, mode: u8, offered: usize, boundary: Option<usize>) -> usize {
        if offered <= 1 {
            return offered;
        }
        // recorded value k = offered - n  (0 = everything offered)
        let k = self.dec.draw(st, offered as u32, |r| match mode {
            0 => 0,
            1 => offered as u32 - 1,
            2 => {
                if r.chance(1, 4) {
                    0
                } else {
                    r.below(offered as u32)
                }
            }
            _ => {
                // boundary-biased: stop exactly at / one before / one after a structural boundary
                match (boundary, r.below(6)) {
                    (Some(b), 0) if b >= 1 && b <= offered => (offered - b) as u32,
                    (Some(b), 1) if b >= 2 && b - 1 <= offered => (offered - (b - 1)) as u32,
                    (Some(b), 2) if b + 1 <= offered => (offered - (b + 1)) as u32,
                    (_, 3) => offered as u32 - 1,
                    (_, 4) => 0,
                    _ => r.below(offered as u32),
                }
            }
        });
        offered - k as usize
    }

    /// Resolve a write call that the scheduler has let proceed.
    pub fn complete_write(&mut self, party: u8, data: &[u8], plan: WPlan) -> io::Result<usize> {
        let at0 = self.attempts.last().map(|a| a.accepted == 0).unwrap_or(true);
        match plan {
            WPlan::Err(kind, persistent) => {
                let k = ERR_KINDS[kind];
                if let Some(a) = self.attempts.last_mut() {
                    if self.in_send {
                        if k == io::ErrorKind::Interrupted {
                            a.saw_interrupted = true;
                            // a transient Interrupted may legitimately be retried (bounded);
                            // one that persists must still end the call within the budget
                            if !persistent {
                                a.nonprogress += 1;
                            }
                        } else {
                            a.saw_fail = true;
                        }
                    }
                }
                self.probe(if at0 { P::w_err_at0 } else { P::w_err_mid });
                if k == io::ErrorKind::Interrupted {
                    self.probe(P::w_err_interrupted);
                }
                if persistent {
                    self.probe(P::w_err_persistent);
                }
                self.ev(party, Op::Write, if persistent { Out::ErrPersistent } else { Out::Err }, data.len() as u32, kind as u32);
                return Err(k.into());
            }
            WPlan::Zero => {
                if let Some(a) = self.attempts.last_mut() {
                    if self.in_send {
                        a.saw_fail = true;
                    }
                }
                self.probe(if at0 { P::w_zero_at0 } else { P::w_zero_mid });
                self.ev(party, Op::Write, Out::Zero, data.len() as u32, 0);
                return Ok(0);
            }
            WPlan::Pending(_) => unreachable!("pending handled by the async end"),
            WPlan::Normal => {}
        }
        if self.pipe.reader_closed {
            if let Some(a) = self.attempts.last_mut() {
                if self.in_send {
                    a.saw_fail = true;
                }
            }
            self.probe(P::w_peer_gone);
            self.ev(party, Op::Write, Out::PeerGone, data.len() as u32, 0);
            return Err(io::ErrorKind::BrokenPipe.into());
        }
        let free = self.pipe.cap - self.pipe.buf.len();
        let offered = data.len().min(free);
        if offered == 0 {
            // zero-length write request from the library: nothing to accept
            self.ev(party, Op::Write, Out::Ok, 0, 0);
            return Ok(0);
        }
        let boundary = self.attempts.last().filter(|_| self.in_send).map(|a| a.frame_len.saturating_sub(a.accepted));
        let at = self.pipe.accepted_total;
        let n = match self.split_w {
            Some(sp) if sp > at && sp - at < offered => sp - at,
            _ => self.chunk(St::WChunk, self.knobs.wchunk_mode, offered, boundary),
        };
        self.pipe.buf.extend(&data[..n]);
        self.pipe.sink.extend_from_slice(&data[..n]);
        self.pipe.accepted_total += n;
        if self.in_send {
            if let Some(a) = self.attempts.last_mut() {
                a.accepted += n;
                a.flushed_after_last = false;
            }
        }
        if n < data.len() {
            self.probe(P::w_short);
        }
        self.ev(party, Op::Write, if n < data.len() { Out::Short } else { Out::Ok }, n as u32, data.len() as u32);
        if let Some(w) = self.pipe.read_waker.take() {
            w.wake();
        }
        Ok(n)
    }

    // ---- read side --------------------------------------------------------------------------

    fn at_eof(&self) -> bool {
        match self.eof_at {
            Some(k) => self.pipe.delivered_total >= k,
            None => false,
        }
    }

    pub fn plan_read(&mut self, is_async: bool) -> RPlan {
        let idx = self.r_calls;
        self.r_calls += 1;
        if let Some(k) = self.persistent_r {
            return RPlan::Err(k, true);
        }
        if let Some(f) = self.forced {
            if f.side == 1 && f.index == idx {
                self.faults_fired += 1;
                if f.what == 0 {
                    // the sender "crashes" here: nothing beyond what has been delivered arrives
                    self.eof_at = Some(self.pipe.delivered_total);
                    return RPlan::Normal;
                }
                let kind = (f.what as usize - 1) % ERR_KINDS.len();
                if f.persistent {
                    self.persistent_r = Some(kind);
                }
                return RPlan::Err(kind, f.persistent);
            }
        }
        if self.fault_allowed() {
            let pe = self.knobs.p_r_err;
            let pp = if is_async { self.knobs.p_pend } else { 0 };
            if pe + pp > 0 {
                let k = self.dec.weighted(St::RFault, &[1024u32.saturating_sub(pe + pp).max(1), pe, pp]);
                match k {
                    1 => {
                        let persistent = self.dec.chance(St::RFault, self.knobs.p_persist, 1024);
                        let kind = self.pick_err_kind(St::RFault, true);
                        self.faults_fired += 1;
                        if persistent {
                            self.persistent_r = Some(kind);
                        }
                        return RPlan::Err(kind, persistent);
                    }
                    2 => {
                        self.faults_fired += 1;
                        let delay = if self.knobs.max_wake_delay > 0 { self.dec.below(St::Pend, self.knobs.max_wake_delay + 1) } else { 0 };
                        return RPlan::Pending(delay);
                    }
                    _ => {}
                }
            }
        }
        RPlan::Normal
    }

    pub fn read_enabled(&self, plan: RPlan) -> bool {
        match plan {
            RPlan::Normal => !self.pipe.buf.is_empty() || self.pipe.writer_closed || self.at_eof(),
            _ => true,
        }
    }

    pub fn complete_read(&mut self, party: u8, out: &mut [u8], plan: RPlan) -> io::Result<usize> {
        match plan {
            RPlan::Err(kind, persistent) => {
                let k = ERR_KINDS[kind];
                if self.in_recv {
                    if let Some(r) = self.recvs.last_mut() {
                        r.saw_err = true;
                        if k != io::ErrorKind::Interrupted {
                            r.saw_err_hard = true;
                        }
                        if !persistent {
                            r.nonprogress += 1;
                        }
                    }
                }
                self.probe(P::r_err);
                if k == io::ErrorKind::Interrupted {
                    self.probe(P::r_err_interrupted);
                }
                if persistent {
                    self.probe(P::r_err_persistent);
                }
                self.ev(party, Op::Read, if persistent { Out::ErrPersistent } else { Out::Err }, out.len() as u32, kind as u32);
                return Err(k.into());
            }
            RPlan::Pending(_) => unreachable!(),
            RPlan::Normal => {}
        }
        let mut avail = self.pipe.buf.len();
        if let Some(k) = self.eof_at {
            avail = avail.min(k.saturating_sub(self.pipe.delivered_total));
        }
        if avail == 0 {
            // end of stream
            if self.in_recv {
                if let Some(r) = self.recvs.last_mut() {
                    r.saw_eof = true;
                }
            }
            let d = self.pipe.delivered_total;
            let at_boundary = self.frame_bounds.is_empty() || self.frame_bounds.iter().any(|&(s, e)| d == s || d == e);
            self.probe(if at_boundary { P::r_eof_boundary } else { P::r_eof_mid });
            self.ev(party, Op::Read, Out::Eof, 0, out.len() as u32);
            return Ok(0);
        }
        let offered = avail.min(out.len());
        if offered == 0 {
            self.ev(party, Op::Read, Out::Ok, 0, 0);
            return Ok(0);
        }
        // distance to the end of the frame the next delivered byte belongs to
        let d = self.pipe.delivered_total;
        let boundary = self.frame_bounds.iter().find(|&&(s, e)| d >= s && d < e).map(|&(_, e)| e - d);
        let n = match self.split_r {
            Some(sp) if sp > d && sp - d < offered => sp - d,
            _ => self.chunk(St::RChunk, self.knobs.rchunk_mode, offered, boundary),
        };
        for b in out.iter_mut().take(n) {
            *b = self.pipe.buf.pop_front().unwrap();
        }
        self.pipe.delivered_total += n;
        if n < offered {
            self.probe(P::r_short);
        }
        if n == 1 {
            self.probe(P::r_one_byte);
        }
        // reach probes relative to frame structure
        let d2 = self.pipe.delivered_total;
        let mut crossed = 0;
        for (i, &(s, e)) in self.frame_bounds.iter().enumerate() {
            if d2 > s && d2 < e {
                let pad = self.frame_pad_start.get(i).copied().unwrap_or(e);
                if d2 >= pad {
                    self.stats[P::read_ended_in_trailing_padding as usize] += 1;
                } else if d2 - s < self.align.max(2) {
                    self.stats[P::read_ended_in_header as usize] += 1;
                }
            }
            if e > d && e <= d2 {
                crossed += 1;
            }
        }
        if crossed >= 2 {
            self.probe(P::two_msgs_coalesced_in_one_read);
        }
        self.ev(party, Op::Read, if n < offered { Out::Short } else { Out::Ok }, n as u32, out.len() as u32);
        if let Some(w) = self.pipe.write_waker.take() {
            w.wake();
        }
        Ok(n)
    }

    // ---- bookkeeping called by the parties ---------------------------------------------------

    /// `frame` = the first `len` bytes of the value as far as the value's own `as_bytes()`
    /// exposes them (it may stop short of `size()` inside the trailing padding).
    pub fn begin_send(&mut self, msg_index: usize, frame: Vec<u8>, len: usize, val: Val, poisoned: bool) {
        self.attempts.push(Attempt {
            msg_index,
            frame,
            frame_len: len,
            val,
            sink_start: self.pipe.sink.len(),
            accepted: 0,
            result: None,
            panicked: None,
            saw_fail: false,
            saw_interrupted: false,
            calls: 0,
            nonprogress: 0,
            poisoned_before: poisoned,
            poisoned_after: poisoned,
            flushed_after_last: false,
            accepted_total_at_end: 0,
            flushed_through_at_end: 0,
        });
        self.in_send = true;
        self.ev(SENDER, Op::SendBegin, Out::None, len as u32, msg_index as u32);
    }

    pub fn end_send(&mut self, result: Result<(), String>, panicked: Option<String>, win: (usize, usize, usize, bool)) {
        self.in_send = false;
        let at = self.pipe.accepted_total;
        let ft = self.pipe.flushed_through;
        let a = self.attempts.last_mut().unwrap();
        a.accepted_total_at_end = at;
        a.flushed_through_at_end = ft;
        a.poisoned_after = win.3;
        let out = if panicked.is_some() {
            Out::Panic
        } else if result.is_ok() {
            Out::Ok
        } else {
            Out::Err
        };
        a.result = Some(result);
        a.panicked = panicked;
        let n = a.accepted as u32;
        if win.3 {
            self.probe(P::poisoned_set);
        }
        if out == Out::Ok {
            self.probe(P::msgs_sent_ok);
        }
        self.ev(SENDER, Op::SendEnd, out, n, 0);
        self.note_state(win);
    }

    pub fn begin_recv(&mut self, win: (usize, usize, usize, bool)) {
        if win.0 > 0 {
            self.probe(P::validate_with_start_gt0);
        }
        self.recv_capacity = win.2;
        self.recvs.push(RecvRec {
            outcome: RecvOutcome::InFlight,
            calls: 0,
            nonprogress: 0,
            delivered_at_start: self.pipe.delivered_total,
            delivered_at_end: 0,
            consumed_before: self.consumed,
            consumed_after: 0,
            saw_err: false,
            saw_err_hard: false,
            stream_exhausted: false,
            saw_eof: false,
            window_after: win,
            window_before: win,
        });
        self.in_recv = true;
        self.ev(RECEIVER, Op::RecvBegin, Out::None, win.1.saturating_sub(win.0) as u32, win.0 as u32);
    }

    /// `recv()` has returned (the guard, if any, is still alive).
    pub fn recv_returned(&mut self) {
        self.in_recv = false;
        let d = self.pipe.delivered_total;
        if let Some(r) = self.recvs.last_mut() {
            r.delivered_at_end = d;
        }
    }

    pub fn end_recv(&mut self, outcome: RecvOutcome, win: (usize, usize, usize, bool)) {
        self.in_recv = false;
        let (out, n) = match &outcome {
            RecvOutcome::Msg { size, retained, .. } => {
                if !*retained {
                    self.consumed += *size;
                }
                (Out::Msg, *size as u32)
            }
            RecvOutcome::Parse(_) => (Out::Parse, 0),
            RecvOutcome::ReadErr(_) => (Out::ReadErr, 0),
            RecvOutcome::Closed => (Out::Closed, 0),
            RecvOutcome::Panic(_) => (Out::Panic, 0),
            RecvOutcome::InFlight | RecvOutcome::Waiting => (Out::None, 0),
        };
        match out {
            Out::Msg => self.probe(P::msgs_delivered),
            Out::Parse => self.probe(P::parse_err_returned),
            Out::Closed => self.probe(P::closed_returned),
            _ => {}
        }
        let consumed = self.consumed;
        let d = self.pipe.delivered_total;
        let exhausted = (self.pipe.writer_closed && self.pipe.buf.is_empty()) || self.eof_at.map(|k| d >= k).unwrap_or(false);
        let r = self.recvs.last_mut().unwrap();
        r.stream_exhausted = exhausted;
        if let (RecvOutcome::ReadErr(k), true) = (&outcome, true) {
            if k == "OutOfMemory" && !r.saw_err {
                self.stats[P::oom_returned as usize] += 1;
            }
        }
        let before = r.window_before;
        r.outcome = outcome;
        r.consumed_after = consumed;
        r.delivered_at_end = d;
        r.window_after = win;
        // compaction probe: start went from > 0 to 0 while bytes stayed occupied
        if before.0 > 0 && win.0 == 0 && win.1 > 0 {
            self.probe(P::make_contiguous_ran);
        }
        self.ev(RECEIVER, Op::RecvEnd, out, n, win.1.saturating_sub(win.0) as u32);
        self.note_state(win);
    }
}
