//! A crash of the process while a run is inside library code (SIGSEGV, SIGBUS, SIGILL, SIGFPE,
//! SIGABRT – e.g. `validate` jumping through an out-of-range enum tag on a broken tree, or glibc
//! detecting a corrupted heap) is the strongest form of "panics".  It cannot be caught like an
//! unwinding panic, so every run registers its own scenario (already serialised, in a per-thread
//! buffer) before it starts; the signal handler writes that buffer to the replay file, prints the
//! VIOLATION line and exits 1.  Replaying the file crashes at the same point and reports again.
//! Only async-signal-safe calls in the handler (open/write/close/_exit); not under Miri.

use crate::run::Scenario;
use std::cell::Cell;

const CAP: usize = 1 << 16;

struct Slot {
    active: bool,
    path: Vec<u8>, // NUL-terminated
    json: Vec<u8>,
    line: Vec<u8>,
}

thread_local! {
    static SLOT: Cell<*mut Slot> = const { Cell::new(std::ptr::null_mut()) };
}

pub struct InRun;

impl Drop for InRun {
    fn drop(&mut self) {
        let p = SLOT.with(|s| s.get());
        if !p.is_null() {
            unsafe { (*p).active = false };
        }
    }
}

pub fn crash_signature(prop: &str) -> String {
    format!("{}|no-panic|crash|process", prop)
}

/// Register `sc` as the run in flight on this thread.
pub fn enter(sc: &Scenario, vdir: &std::path::Path) -> InRun {
    if cfg!(miri) {
        return InRun;
    }
    let p = SLOT.with(|s| {
        if s.get().is_null() {
            let b = Box::new(Slot { active: false, path: Vec::with_capacity(512), json: Vec::with_capacity(CAP), line: Vec::with_capacity(768) });
            s.set(Box::into_raw(b));
        }
        s.get()
    });
    let slot = unsafe { &mut *p };
    slot.active = false;
    let mut sc2 = sc.clone();
    sc2.expect_signature = Some(crash_signature(&sc.property));
    sc2.expect_log_hash = None;
    sc2.summary = None;
    slot.json.clear();
    if serde_json::to_writer(&mut slot.json, &sc2).is_err() || slot.json.len() > CAP {
        // a very long tape: fall back to the seed-driven scenario
        sc2.tape = None;
        slot.json.clear();
        let _ = serde_json::to_writer(&mut slot.json, &sc2);
    }
    let path = vdir.join("replays").join(format!("{}-crash-{}-{}.json", sc.property, sc.seed, sc.type_index));
    let path = path.display().to_string();
    slot.path.clear();
    slot.path.extend_from_slice(path.as_bytes());
    slot.path.push(0);
    slot.line.clear();
    slot.line.extend_from_slice(
        format!(
            "violation found: the process crashed (fatal signal) during a run (property={} world={:?} type={} seed={}): [{}]\nVIOLATION property={} replay={}\n",
            sc.property,
            sc.world,
            sc.type_name,
            sc.seed,
            crash_signature(&sc.property),
            sc.property,
            path
        )
        .as_bytes(),
    );
    slot.active = true;
    InRun
}

#[cfg(not(miri))]
extern "C" fn on_crash(sig: libc::c_int) {
    unsafe {
        let p = SLOT.with(|s| s.get());
        if p.is_null() || !(*p).active {
            // not inside a run: a harness problem – die the default way
            libc::signal(sig, libc::SIG_DFL);
            libc::raise(sig);
            return;
        }
        let slot = &*p;
        let fd = libc::open(slot.path.as_ptr() as *const libc::c_char, libc::O_WRONLY | libc::O_CREAT | libc::O_TRUNC, 0o644);
        if fd >= 0 {
            let mut off = 0usize;
            while off < slot.json.len() {
                let n = libc::write(fd, slot.json.as_ptr().add(off) as *const libc::c_void, slot.json.len() - off);
                if n <= 0 {
                    break;
                }
                off += n as usize;
            }
            libc::close(fd);
        }
        let _ = libc::write(1, slot.line.as_ptr() as *const libc::c_void, slot.line.len());
        libc::_exit(1);
    }
}

/// Install the handlers (once per process) and make sure the replay directory exists.
pub fn install(vdir: &std::path::Path) {
    #[cfg(not(miri))]
    unsafe {
        let _ = std::fs::create_dir_all(vdir.join("replays"));
        for sig in [libc::SIGSEGV, libc::SIGBUS, libc::SIGILL, libc::SIGFPE, libc::SIGABRT] {
            let mut sa: libc::sigaction = std::mem::zeroed();
            sa.sa_sigaction = on_crash as usize;
            sa.sa_flags = libc::SA_ONSTACK;
            libc::sigemptyset(&mut sa.sa_mask);
            libc::sigaction(sig, &sa, std::ptr::null_mut());
        }
    }
    #[cfg(miri)]
    let _ = vdir;
}
