//! Minimisation of a failing scenario: shrink the decision tape (towards shorter lists and
//! zeros = benign choices) while the *same violation signature* recurs.

use crate::batch::run_scenario;
use crate::run::Scenario;
use crate::tape::{Tape, NST};

fn try_tape(sc: &Scenario, t: &Tape, sig: &str, budget: &mut usize) -> Option<Tape> {
    if *budget == 0 {
        return None;
    }
    *budget -= 1;
    let mut s = sc.clone();
    s.tape = Some(t.clone());
    let out = run_scenario(&s, false);
    match out.violation {
        Some(v) if v.signature() == sig => Some(out.tape),
        _ => None,
    }
}

pub fn shrink(sc: &Scenario, sig: &str, mut budget: usize) -> Scenario {
    let mut best = match &sc.tape {
        Some(t) => t.clone(),
        None => return sc.clone(),
    };
    let mut improved = true;
    while improved && budget > 0 {
        improved = false;
        // order: faults and schedule first (drop them), then chunking, then messages, then cfg
        for &si in &[5usize, 6, 7, 8, 10, 2, 3, 4, 9, 1, 0] {
            debug_assert!(si < NST);
            // 1. clear the stream
            if !best.get(si).is_empty() && best.get(si).iter().any(|&x| x != 0) {
                let mut t = best.clone();
                t.get_mut(si).clear();
                if let Some(r) = try_tape(sc, &t, sig, &mut budget) {
                    if r.weight() < best.weight() {
                        best = r;
                        improved = true;
                        continue;
                    }
                }
            }
            // 2. truncate (tail decisions fall back to the benign default)
            let mut keep = best.get(si).len() / 2;
            while keep > 0 && keep < best.get(si).len() {
                let mut t = best.clone();
                t.get_mut(si).truncate(keep);
                match try_tape(sc, &t, sig, &mut budget) {
                    Some(r) if r.weight() < best.weight() => {
                        best = r;
                        improved = true;
                        keep = best.get(si).len() / 2;
                    }
                    _ => break,
                }
            }
            // 3. zero / halve / delete single entries (messages and cfg: only zero + halve)
            let mut i = 0;
            while i < best.get(si).len() && budget > 0 {
                let cur = best.get(si)[i];
                let mut done = false;
                if cur != 0 {
                    for cand in [0u32, cur / 2, cur - 1] {
                        if cand >= cur {
                            continue;
                        }
                        let mut t = best.clone();
                        t.get_mut(si)[i] = cand;
                        if let Some(r) = try_tape(sc, &t, sig, &mut budget) {
                            if r.weight() < best.weight() {
                                best = r;
                                improved = true;
                                done = true;
                                break;
                            }
                        }
                    }
                }
                if !done && si != 0 && best.get(si).len() <= 64 {
                    let mut t = best.clone();
                    t.get_mut(si).remove(i);
                    if let Some(r) = try_tape(sc, &t, sig, &mut budget) {
                        if r.weight() < best.weight() {
                            best = r;
                            improved = true;
                            continue;
                        }
                    }
                }
                i += 1;
            }
        }
    }
    let mut out = sc.clone();
    out.tape = Some(best);
    out
}
