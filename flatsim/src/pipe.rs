//! The pipe ends handed to flatty-io: `std::io::{Read, Write}` for the blocking world and
//! `futures::io::{AsyncRead, AsyncWrite}` for the async world.  All behaviour (how many bytes,
//! which fault, Pending or not) is decided by the `World`.

use crate::backend::suspend;
use crate::world::*;
use futures::io::{AsyncRead, AsyncWrite};
use std::io;
use std::pin::Pin;
use std::task::{Context, Poll};

// ---- blocking ends --------------------------------------------------------------------------

pub struct SimWriter {
    sh: Shared,
}
impl SimWriter {
    pub fn new(sh: Shared) -> Self {
        SimWriter { sh }
    }
}
impl io::Write for SimWriter {
    fn write(&mut self, buf: &[u8]) -> io::Result<usize> {
        let plan = {
            let mut w = lock(&self.sh);
            w.pre_call(SENDER);
            let plan = w.plan_write(buf.len(), false);
            if !w.write_enabled(plan) {
                w.probe(P::pipe_full_block);
            }
            w.wplan = Some(plan);
            plan
        };
        suspend();
        let mut w = lock(&self.sh);
        w.wplan = None;
        if w.abort {
            drop(w);
            std::panic::panic_any(SimStop("abort"));
        }
        debug_assert!(w.write_enabled(plan));
        w.complete_write(SENDER, buf, plan)
    }
    fn flush(&mut self) -> io::Result<()> {
        Ok(())
    }
}
impl Drop for SimWriter {
    fn drop(&mut self) {
        let mut w = lock(&self.sh);
        w.pipe.writer_closed = true;
        if let Some(wk) = w.pipe.read_waker.take() {
            wk.wake();
        }
    }
}

pub struct SimReader {
    sh: Shared,
}
impl SimReader {
    pub fn new(sh: Shared) -> Self {
        SimReader { sh }
    }
}
impl io::Read for SimReader {
    fn read(&mut self, out: &mut [u8]) -> io::Result<usize> {
        let plan = {
            let mut w = lock(&self.sh);
            w.pre_call(RECEIVER);
            let plan = w.plan_read(false);
            if !w.read_enabled(plan) {
                w.probe(P::pipe_empty_block);
            }
            w.rplan = Some(plan);
            plan
        };
        suspend();
        let mut w = lock(&self.sh);
        w.rplan = None;
        if w.abort {
            drop(w);
            std::panic::panic_any(SimStop("abort"));
        }
        debug_assert!(w.read_enabled(plan));
        w.complete_read(RECEIVER, out, plan)
    }
}
impl Drop for SimReader {
    fn drop(&mut self) {
        let mut w = lock(&self.sh);
        w.pipe.reader_closed = true;
        if let Some(wk) = w.pipe.write_waker.take() {
            wk.wake();
        }
    }
}

// ---- async ends -----------------------------------------------------------------------------

pub struct SimAsyncWriter {
    sh: Shared,
}
impl SimAsyncWriter {
    pub fn new(sh: Shared) -> Self {
        SimAsyncWriter { sh }
    }
}

fn spurious_pending(w: &mut World, party: u8, op: Op, delay: u32, cx: &mut Context<'_>) {
    if party == SENDER {
        if w.in_send {
            if let Some(a) = w.attempts.last_mut() {
                a.nonprogress += 1;
            }
        }
    } else if w.in_recv {
        if let Some(r) = w.recvs.last_mut() {
            r.nonprogress += 1;
        }
    }
    if delay == 0 {
        cx.waker().wake_by_ref();
        w.ev(party, op, Out::Pending, 0, 0);
    } else {
        w.timer_seq += 1;
        let seq = w.timer_seq;
        let at = w.now + delay as u64;
        w.timers.push(std::cmp::Reverse((at, seq, party)));
        w.timer_wakers.push((seq, cx.waker().clone()));
        w.ev(party, op, Out::PendingDelayed, 0, delay);
    }
}

impl AsyncWrite for SimAsyncWriter {
    fn poll_write(self: Pin<&mut Self>, cx: &mut Context<'_>, buf: &[u8]) -> Poll<io::Result<usize>> {
        let mut w = lock(&self.sh);
        w.pre_call(SENDER);
        let plan = w.plan_write(buf.len(), true);
        match plan {
            WPlan::Pending(delay) => {
                w.probe(if delay == 0 { P::w_pending } else { P::w_pending_delayed });
                spurious_pending(&mut w, SENDER, Op::Write, delay, cx);
                Poll::Pending
            }
            _ => {
                if !w.write_enabled(plan) {
                    // genuinely full: park until the reader makes room
                    w.probe(P::pipe_full_block);
                    w.pipe.write_waker = Some(cx.waker().clone());
                    if w.in_send {
                        if let Some(a) = w.attempts.last_mut() {
                            a.nonprogress += 1;
                        }
                    }
                    w.ev(SENDER, Op::Write, Out::PendingGenuine, 0, 0);
                    return Poll::Pending;
                }
                Poll::Ready(w.complete_write(SENDER, buf, plan))
            }
        }
    }

    fn poll_flush(self: Pin<&mut Self>, cx: &mut Context<'_>) -> Poll<io::Result<()>> {
        let mut w = lock(&self.sh);
        w.pre_call(SENDER);
        if let Some(k) = w.persistent_w {
            w.probe(P::f_err);
            if w.in_send {
                if let Some(a) = w.attempts.last_mut() {
                    a.saw_fail = true;
                }
            }
            w.ev(SENDER, Op::Flush, Out::ErrPersistent, 0, k as u32);
            return Poll::Ready(Err(ERR_KINDS[k].into()));
        }
        let fidx = w.f_calls;
        w.f_calls += 1;
        let forced = match w.forced {
            Some(f) if f.side == 2 && f.index == fidx => Some(if f.what == 0 { 1 } else { 2 }),
            _ => None,
        };
        let (pp, pe) = if w.faults_fired < w.knobs.max_faults { (w.knobs.p_f_pend, w.knobs.p_f_err) } else { (0, 0) };
        let k = if let Some(k) = forced {
            k
        } else if pp + pe > 0 { w.dec.weighted(crate::tape::St::Flush, &[1024u32.saturating_sub(pp + pe).max(1), pp, pe]) } else { 0 };
        match k {
            1 => {
                w.faults_fired += 1;
                let mwd = w.knobs.max_wake_delay;
                let delay = if mwd > 0 { w.dec.below(crate::tape::St::Pend, mwd + 1) } else { 0 };
                w.probe(P::f_pending);
                spurious_pending(&mut w, SENDER, Op::Flush, delay, cx);
                Poll::Pending
            }
            2 => {
                w.faults_fired += 1;
                w.probe(P::f_err);
                if w.in_send {
                    if let Some(a) = w.attempts.last_mut() {
                        a.saw_fail = true;
                    }
                }
                let kind = 8; // Other
                w.ev(SENDER, Op::Flush, Out::Err, 0, kind);
                Poll::Ready(Err(ERR_KINDS[kind as usize].into()))
            }
            _ => {
                w.probe(P::f_ok);
                w.pipe.flushed_through = w.pipe.accepted_total;
                if w.in_send {
                    if let Some(a) = w.attempts.last_mut() {
                        a.flushed_after_last = true;
                    }
                }
                w.ev(SENDER, Op::Flush, Out::Ok, 0, 0);
                Poll::Ready(Ok(()))
            }
        }
    }

    fn poll_close(self: Pin<&mut Self>, _cx: &mut Context<'_>) -> Poll<io::Result<()>> {
        let mut w = lock(&self.sh);
        w.pipe.writer_closed = true;
        if let Some(wk) = w.pipe.read_waker.take() {
            wk.wake();
        }
        Poll::Ready(Ok(()))
    }
}
impl Drop for SimAsyncWriter {
    fn drop(&mut self) {
        let mut w = lock(&self.sh);
        w.pipe.writer_closed = true;
        if let Some(wk) = w.pipe.read_waker.take() {
            wk.wake();
        }
    }
}

pub struct SimAsyncReader {
    sh: Shared,
}
impl SimAsyncReader {
    pub fn new(sh: Shared) -> Self {
        SimAsyncReader { sh }
    }
}
impl AsyncRead for SimAsyncReader {
    fn poll_read(self: Pin<&mut Self>, cx: &mut Context<'_>, out: &mut [u8]) -> Poll<io::Result<usize>> {
        let mut w = lock(&self.sh);
        w.pre_call(RECEIVER);
        let plan = w.plan_read(true);
        match plan {
            RPlan::Pending(delay) => {
                w.probe(if delay == 0 { P::r_pending } else { P::r_pending_delayed });
                spurious_pending(&mut w, RECEIVER, Op::Read, delay, cx);
                Poll::Pending
            }
            _ => {
                if !w.read_enabled(plan) {
                    w.probe(P::pipe_empty_block);
                    w.reader_parked_cap = Some(out.len());
                    w.pipe.read_waker = Some(cx.waker().clone());
                    if w.in_recv {
                        if let Some(r) = w.recvs.last_mut() {
                            r.nonprogress += 1;
                        }
                    }
                    w.ev(RECEIVER, Op::Read, Out::PendingGenuine, 0, 0);
                    return Poll::Pending;
                }
                w.reader_parked_cap = None;
                Poll::Ready(w.complete_read(RECEIVER, out, plan))
            }
        }
    }
}
impl Drop for SimAsyncReader {
    fn drop(&mut self) {
        let mut w = lock(&self.sh);
        w.pipe.reader_closed = true;
        if let Some(wk) = w.pipe.write_waker.take() {
            wk.wake();
        }
    }
}
