mod backend;
mod batch;
mod c06;
mod c10;
mod crash;
mod oracle;
mod party;
mod pipe;
mod run;
mod sched;
mod shrink;
mod tape;
mod val;
mod world;
mod zoo;
mod zoo_gen;
mod zoo_gen_list;

use std::process::exit;

fn usage() -> ! {
    eprintln!(
        "usage:\n  flatsim run --property <C06..C10> --tier <quick|thorough> [--seed N] [--workers N] [--backend coro|threads]\n  flatsim replay <file>\n  flatsim selftest <zoo|determinism> [--seeds N]\n  flatsim one --property P --world blocking|async --type I --seed S   (debug: run + print summary)"
    );
    exit(2)
}

fn arg_val(args: &[String], name: &str) -> Option<String> {
    args.iter().position(|a| a == name).and_then(|i| args.get(i + 1).cloned())
}

fn main() {
    backend::install_panic_hook();
    let args: Vec<String> = std::env::args().collect();
    if args.len() < 2 {
        usage();
    }
    let code = match args[1].as_str() {
        "run" => {
            let prop = arg_val(&args, "--property").unwrap_or_else(|| usage());
            let tier = arg_val(&args, "--tier").or_else(|| std::env::var("VERIF_TIER").ok()).unwrap_or_else(|| "quick".into());
            let seed = arg_val(&args, "--seed")
                .or_else(|| std::env::var("VERIF_SEED").ok())
                .and_then(|s| s.parse::<u64>().ok())
                .unwrap_or(batch::DEFAULT_SEED);
            let workers = arg_val(&args, "--workers")
                .or_else(|| std::env::var("FLATSIM_WORKERS").ok())
                .and_then(|s| s.parse::<usize>().ok())
                .unwrap_or_else(|| std::thread::available_parallelism().map(|n| n.get()).unwrap_or(4));
            let backend = arg_val(&args, "--backend").unwrap_or_else(|| "coro".into());
            let scale = arg_val(&args, "--scale").and_then(|s| s.parse::<f64>().ok()).unwrap_or(1.0);
            batch::run_check(&prop, &tier, seed, workers, &backend, scale)
        }
        "replay" => {
            let path = args.get(2).cloned().unwrap_or_else(|| usage());
            batch::replay_file(&path)
        }
        "selftest" => {
            let what = args.get(2).cloned().unwrap_or_else(|| usage());
            let seeds = arg_val(&args, "--seeds").and_then(|s| s.parse::<u64>().ok()).unwrap_or(300);
            match what.as_str() {
                "zoo" => batch::selftest_zoo(),
                "determinism" => batch::selftest_determinism(seeds),
                _ => usage(),
            }
        }
        "miri" | "seq" => {
            let prop = arg_val(&args, "--property").unwrap_or_else(|| usage());
            let runs = arg_val(&args, "--runs").and_then(|s| s.parse::<u64>().ok()).unwrap_or(20);
            let first = arg_val(&args, "--first").and_then(|s| s.parse::<u64>().ok()).unwrap_or(0);
            let seed = arg_val(&args, "--seed").and_then(|s| s.parse::<u64>().ok()).unwrap_or(batch::DEFAULT_SEED);
            let backend = arg_val(&args, "--backend").unwrap_or_else(|| "threads".into());
            batch::run_sequential(&prop, runs, seed, &backend, first)
        }
        "min" => {
            let prop = arg_val(&args, "--property").unwrap_or_else(|| usage());
            let world = arg_val(&args, "--world").unwrap_or_else(|| "blocking".into());
            let ty = arg_val(&args, "--type").and_then(|s| s.parse::<usize>().ok()).unwrap_or(0);
            let seed = arg_val(&args, "--seed").and_then(|s| s.parse::<u64>().ok()).unwrap_or(1);
            let backend = arg_val(&args, "--backend").unwrap_or_else(|| "coro".into());
            let out = arg_val(&args, "--out").unwrap_or_else(|| "/verif/replays/min.json".into());
            batch::minimise_seed(&prop, &world, ty, seed, &backend, &out)
        }
        "one" => {
            let prop = arg_val(&args, "--property").unwrap_or_else(|| usage());
            let world = arg_val(&args, "--world").unwrap_or_else(|| "blocking".into());
            let ty = arg_val(&args, "--type").and_then(|s| s.parse::<usize>().ok()).unwrap_or(0);
            let seed = arg_val(&args, "--seed").and_then(|s| s.parse::<u64>().ok()).unwrap_or(1);
            let backend = arg_val(&args, "--backend").unwrap_or_else(|| "coro".into());
            batch::run_one_debug(&prop, &world, ty, seed, &backend)
        }
        _ => usage(),
    };
    exit(code)
}
