fn main() { println!("flatsim"); }
