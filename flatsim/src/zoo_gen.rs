//! Generated breadth of the zoo: generic families `struct {a: A, b: B, c: C, t: Tail}` and
//! `enum { N, P(A, B, C), Q { x: B, y: A, z: C, t: Tail } }` over sized leaf types (64 triples
//! covering all pairs of 8 leaves with alignments 1..16, content-constrained ones included) and 8 unsized tails.  The
//! `#[flat]` macro is expanded once per family; the instantiation list and the dispatch arms
//! are in `zoo_gen_list.rs` (written by `gen_zoo.py`).

use crate::val::{Gen, Val};
use crate::zoo::*;
use flatty::{flat, portable::Bool, prelude::*, Error, FlatVec};

/// A sized leaf field type with its adapter.
pub trait Leaf: Flat + Sized + Default + Copy + 'static {
    const LNAME: &'static str;
    fn lgen(g: &mut Gen) -> Val;
    fn lmk(v: &Val) -> Self;
    fn lrd(&self) -> Val;
}

macro_rules! leaf_int {
    ($t:ty, $bits:expr, $name:expr) => {
        impl Leaf for $t {
            const LNAME: &'static str = $name;
            fn lgen(g: &mut Gen) -> Val {
                Val::I(g.int($bits, false))
            }
            fn lmk(v: &Val) -> Self {
                v.int() as $t
            }
            fn lrd(&self) -> Val {
                Val::I(*self as i128)
            }
        }
    };
}
leaf_int!(u8, 8, "u8");
leaf_int!(u16, 16, "u16");
leaf_int!(u32, 32, "u32");
leaf_int!(u64, 64, "u64");
leaf_int!(u128, 100, "u128");

impl Leaf for Bool {
    const LNAME: &'static str = "Bool";
    fn lgen(g: &mut Gen) -> Val {
        Val::B(g.boolean())
    }
    fn lmk(v: &Val) -> Self {
        Bool::from(v.boolean())
    }
    fn lrd(&self) -> Val {
        rd_bool(self)
    }
}
impl Leaf for Mode {
    const LNAME: &'static str = "Mode";
    fn lgen(g: &mut Gen) -> Val {
        Val::T(g.pick(3))
    }
    fn lmk(v: &Val) -> Self {
        mk_mode(v)
    }
    fn lrd(&self) -> Val {
        rd_mode(self)
    }
}
impl Leaf for [u8; 3] {
    const LNAME: &'static str = "[u8;3]";
    fn lgen(g: &mut Gen) -> Val {
        Val::R((0..3).map(|_| Val::I(g.int(8, false))).collect())
    }
    fn lmk(v: &Val) -> Self {
        [v.field(0).int() as u8, v.field(1).int() as u8, v.field(2).int() as u8]
    }
    fn lrd(&self) -> Val {
        Val::R(self.iter().map(|x| Val::I(*x as i128)).collect())
    }
}

pub type VecB8 = FlatVec<u8, u8>;
impl ZooMsg for VecB8 {
    const NAME: &'static str = "FlatVec<u8,u8>";
    fn gen(g: &mut Gen) -> Val {
        let n = g.len();
        Val::L((0..n).map(|_| Val::I(g.int(8, false))).collect())
    }
    fn emplace_val<'b>(bytes: &'b mut [u8], v: &Val) -> Result<&'b mut Self, Error> {
        Self::new_in_place(bytes, flatty::vec::FromIterator(v.list().iter().map(|x| x.int() as u8)))
    }
    fn read(&self) -> Val {
        rd_vec(self, |x| Val::I(*x as i128))
    }
    fn tweak(&mut self, g: &mut Gen) {
        tweak_vec(self, g, |g| g.int(8, false) as u8);
    }
}

macro_rules! family {
    ($S:ident, $SInit:ident, $E:ident, $EInitN:ident, $EInitP:ident, $EInitQ:ident, $ERef:ident, $EMut:ident, $Tail:ty, $tag:literal, $sname:expr, $ename:expr) => {
        #[flat(sized = false, default = true)]
        pub struct $S<A: Leaf, B: Leaf, C: Leaf> {
            pub a: A,
            pub b: B,
            pub c: C,
            pub t: $Tail,
        }
        impl<A: Leaf, B: Leaf, C: Leaf> ZooMsg for $S<A, B, C> {
            const NAME: &'static str = $sname;
            fn name() -> String {
                format!("{}<{},{},{}>", $sname, A::LNAME, B::LNAME, C::LNAME)
            }
            fn gen(g: &mut Gen) -> Val {
                let a = A::lgen(g);
                let b = B::lgen(g);
                let c = C::lgen(g);
                Val::R(vec![a, b, c, <$Tail as ZooMsg>::gen(g)])
            }
            fn emplace_val<'x>(bytes: &'x mut [u8], v: &Val) -> Result<&'x mut Self, Error> {
                Self::new_in_place(bytes, $SInit { a: A::lmk(v.field(0)), b: B::lmk(v.field(1)), c: C::lmk(v.field(2)), t: emp::<$Tail>(v.field(3)) })
            }
            fn read(&self) -> Val {
                Val::R(vec![self.a.lrd(), self.b.lrd(), self.c.lrd(), self.t.read()])
            }
            fn tweak(&mut self, g: &mut Gen) {
                if g.chance(1, 3) {
                    self.b = B::lmk(&B::lgen(g));
                }
                self.t.tweak(g);
            }
        }

        #[flat(sized = false, default = true, tag_type = $tag)]
        pub enum $E<A: Leaf, B: Leaf, C: Leaf> {
            #[default]
            N,
            P(A, B, C),
            Q { x: B, y: A, z: C, t: $Tail },
        }
        impl<A: Leaf, B: Leaf, C: Leaf> ZooMsg for $E<A, B, C> {
            const NAME: &'static str = $ename;
            fn default_val() -> Option<Val> {
                Some(Val::V(0, vec![]))
            }
            fn name() -> String {
                format!("{}<{},{},{}>", $ename, A::LNAME, B::LNAME, C::LNAME)
            }
            fn gen(g: &mut Gen) -> Val {
                match g.weighted(&[1, 3, 4]) {
                    0 => Val::V(0, vec![]),
                    1 => {
                        let a = A::lgen(g);
                        let b = B::lgen(g);
                        Val::V(1, vec![a, b, C::lgen(g)])
                    }
                    _ => {
                        let x = B::lgen(g);
                        let y = A::lgen(g);
                        let z = C::lgen(g);
                        Val::V(2, vec![x, y, z, <$Tail as ZooMsg>::gen(g)])
                    }
                }
            }
            fn emplace_val<'x>(bytes: &'x mut [u8], v: &Val) -> Result<&'x mut Self, Error> {
                match v.tag() {
                    0 => Self::new_in_place(bytes, $EInitN),
                    1 => Self::new_in_place(bytes, $EInitP(A::lmk(v.field(0)), B::lmk(v.field(1)), C::lmk(v.field(2)))),
                    _ => Self::new_in_place(bytes, $EInitQ { x: B::lmk(v.field(0)), y: A::lmk(v.field(1)), z: C::lmk(v.field(2)), t: emp::<$Tail>(v.field(3)) }),
                }
            }
            fn read(&self) -> Val {
                let tsz = match $tag {
                    "u8" => 1,
                    "u16" => 2,
                    _ => 4,
                };
                if !enum_tag_ok(self, tsz, 3) {
                    return Val::V(0, vec![]);
                }
                match self.as_ref() {
                    $ERef::N => Val::V(0, vec![]),
                    $ERef::P(a, b, c) => Val::V(1, vec![a.lrd(), b.lrd(), c.lrd()]),
                    $ERef::Q { x, y, z, t } => Val::V(2, vec![x.lrd(), y.lrd(), z.lrd(), t.read()]),
                }
            }
            fn tweak(&mut self, g: &mut Gen) {
                match self.as_mut() {
                    $EMut::N => {}
                    $EMut::P(a, _, _) => *a = A::lmk(&A::lgen(g)),
                    $EMut::Q { x, t, .. } => {
                        if g.chance(1, 3) {
                            *x = B::lmk(&B::lgen(g));
                        }
                        t.tweak(g);
                    }
                }
            }
        }
    };
}

family!(S0, S0Init, E0, E0InitN, E0InitP, E0InitQ, E0Ref, E0Mut, VecU8, "u8", "S{A,B,C,FlatVec<u8,u32>}", "E{N|P(A,B,C)|Q{B,A,C,FlatVec<u8,u32>}}");
family!(S1, S1Init, E1, E1InitN, E1InitP, E1InitQ, E1Ref, E1Mut, VecB8, "u8", "S{A,B,C,FlatVec<u8,u8>}", "E{N|P(A,B,C)|Q{B,A,C,FlatVec<u8,u8>}}");
family!(S2, S2Init, E2, E2InitN, E2InitP, E2InitQ, E2Ref, E2Mut, Str8, "u8", "S{A,B,C,FlatString<u8>}", "E{N|P(A,B,C)|Q{B,A,C,FlatString<u8>}}");
family!(S3, S3Init, E3, E3InitN, E3InitP, E3InitQ, E3Ref, E3Mut, VecI32, "u8", "S{A,B,C,FlatVec<i32,u16>}", "E{N|P(A,B,C)|Q{B,A,C,FlatVec<i32,u16>}}");
family!(S4, S4Init, E4, E4InitN, E4InitP, E4InitQ, E4Ref, E4Mut, BoolVec, "u16", "S{A,B,C,FlatVec<Bool,u8>}", "E{N|P(A,B,C)|Q{B,A,C,FlatVec<Bool,u8>}}");
family!(S5, S5Init, E5, E5InitN, E5InitP, E5InitQ, E5Ref, E5Mut, VecU16, "u16", "S{A,B,C,FlatVec<u16,u16>}", "E{N|P(A,B,C)|Q{B,A,C,FlatVec<u16,u16>}}");
family!(S6, S6Init, E6, E6InitN, E6InitP, E6InitQ, E6Ref, E6Mut, FlexB, "u32", "S{A,B,C,FlexVec<u8,u8>}", "E{N|P(A,B,C)|Q{B,A,C,FlexVec<u8,u8>}}");
family!(S7, S7Init, E7, E7InitN, E7InitP, E7InitQ, E7Ref, E7Mut, VecA3, "u32", "S{A,B,C,FlatVec<[u8;3],u16>}", "E{N|P(A,B,C)|Q{B,A,C,FlatVec<[u8;3],u16>}}");

// ---------------------------------------------------------------------------------------------
// Length / offset type dimension: FlatVec<u16, L>, FlatString<L> and FlexVec<FlatVec<u8,u8>, L>
// for every native and portable length type.

macro_rules! lenfam {
    ($V:ident, $S:ident, $X:ident, $L:ty, $lname:expr) => {
        pub type $V = FlatVec<u16, $L>;
        impl ZooMsg for $V {
            const NAME: &'static str = concat!("FlatVec<u16,", $lname, ">");
            fn gen(g: &mut Gen) -> Val {
                let n = g.len();
                Val::L((0..n).map(|_| Val::I(g.int(16, false))).collect())
            }
            fn emplace_val<'b>(bytes: &'b mut [u8], v: &Val) -> Result<&'b mut Self, Error> {
                Self::new_in_place(bytes, flatty::vec::FromIterator(v.list().iter().map(|x| x.int() as u16)))
            }
            fn read(&self) -> Val {
                rd_vec(self, |x| Val::I(*x as i128))
            }
            fn tweak(&mut self, g: &mut Gen) {
                tweak_vec(self, g, |g| g.int(16, false) as u16);
            }
        }
        pub type $S = flatty::FlatString<$L>;
        impl ZooMsg for $S {
            const NAME: &'static str = concat!("FlatString<", $lname, ">");
            fn gen(g: &mut Gen) -> Val {
                let n = g.len();
                Val::S(g.string(n))
            }
            fn emplace_val<'b>(bytes: &'b mut [u8], v: &Val) -> Result<&'b mut Self, Error> {
                Self::new_in_place(bytes, flatty::string::FromStr(v.str()))
            }
            fn read(&self) -> Val {
                rd_str(self)
            }
            fn tweak(&mut self, g: &mut Gen) {
                tweak_str(self, g);
            }
        }
        pub type $X = flatty::FlexVec<VecB8, $L>;
        impl ZooMsg for $X {
            const NAME: &'static str = concat!("FlexVec<FlatVec<u8,u8>,", $lname, ">");
            fn gen(g: &mut Gen) -> Val {
                gen_flex::<VecB8>(g)
            }
            fn emplace_val<'b>(bytes: &'b mut [u8], v: &Val) -> Result<&'b mut Self, Error> {
                emplace_flex::<VecB8, $L>(bytes, v)
            }
            fn read(&self) -> Val {
                read_flex(self)
            }
            fn tweak(&mut self, g: &mut Gen) {
                tweak_flex(self, g);
            }
        }
    };
}
use flatty::portable::{be, le};
lenfam!(LV0, LS0, LX0, u64, "u64");
lenfam!(LV1, LS1, LX1, usize, "usize");
lenfam!(LV2, LS2, LX2, be::U16, "be::U16");
lenfam!(LV3, LS3, LX3, le::U32, "le::U32");
lenfam!(LV4, LS4, LX4, be::U32, "be::U32");
lenfam!(LV5, LS5, LX5, le::U64, "le::U64");
lenfam!(LV6, LS6, LX6, be::U64, "be::U64");

pub type LX7 = flatty::FlexVec<VecB8, u8>;
impl ZooMsg for LX7 {
    const NAME: &'static str = "FlexVec<FlatVec<u8,u8>,u8>";
    fn gen(g: &mut Gen) -> Val {
        gen_flex::<VecB8>(g)
    }
    fn emplace_val<'b>(bytes: &'b mut [u8], v: &Val) -> Result<&'b mut Self, Error> {
        emplace_flex::<VecB8, u8>(bytes, v)
    }
    fn read(&self) -> Val {
        read_flex(self)
    }
    fn tweak(&mut self, g: &mut Gen) {
        tweak_flex(self, g);
    }
}

// array of composite elements (SIZE > ALIGN) with a validity rule, in a struct and as vector items
#[flat(default = true)]
#[derive(Clone, Copy)]
pub struct Entry {
    pub id: u32,
    pub enabled: Bool,
    pub kind: Mode,
}
fn entry_gen(g: &mut Gen) -> Val {
    Val::R(vec![Val::I(g.int(32, false)), Val::B(g.boolean()), Val::T(g.pick(3))])
}
fn entry_mk(v: &Val) -> Entry {
    Entry { id: v.field(0).int() as u32, enabled: Bool::from(v.field(1).boolean()), kind: mk_mode(v.field(2)) }
}
fn entry_rd(e: &Entry) -> Val {
    Val::R(vec![Val::I(e.id as i128), rd_bool(&e.enabled), rd_mode(&e.kind)])
}

#[flat(sized = false, default = true)]
pub struct Entries {
    pub head: [Entry; 3],
    pub more: FlatVec<[Entry; 2], u16>,
}
impl ZooMsg for Entries {
    const NAME: &'static str = "Entries";
    fn gen(g: &mut Gen) -> Val {
        let head = Val::R((0..3).map(|_| entry_gen(g)).collect());
        let n = g.len();
        let more = Val::L((0..n).map(|_| Val::R(vec![entry_gen(g), entry_gen(g)])).collect());
        Val::R(vec![head, more])
    }
    fn emplace_val<'b>(bytes: &'b mut [u8], v: &Val) -> Result<&'b mut Self, Error> {
        let h = v.field(0);
        Self::new_in_place(
            bytes,
            EntriesInit {
                head: [entry_mk(h.field(0)), entry_mk(h.field(1)), entry_mk(h.field(2))],
                more: flatty::vec::FromIterator(v.field(1).list().iter().map(|x| [entry_mk(x.field(0)), entry_mk(x.field(1))])),
            },
        )
    }
    fn read(&self) -> Val {
        Val::R(vec![Val::R(self.head.iter().map(entry_rd).collect()), rd_vec(&self.more, |a| Val::R(a.iter().map(entry_rd).collect()))])
    }
    fn tweak(&mut self, g: &mut Gen) {
        self.head[g.pick(3) as usize].enabled = Bool::from(g.boolean());
        tweak_vec(&mut self.more, g, |g| [entry_mk(&entry_gen(g)), entry_mk(&entry_gen(g))]);
    }
}

// portable string as a field at an odd offset (length type with size > alignment)
#[flat(sized = false, portable = true, default = true)]
pub struct PStrField {
    pub a: u8,
    pub s: flatty::FlatString<le::U16>,
}
impl ZooMsg for PStrField {
    const NAME: &'static str = "PStrField";
    fn gen(g: &mut Gen) -> Val {
        let a = g.int(8, false);
        let n = g.len();
        Val::R(vec![Val::I(a), Val::S(g.string(n))])
    }
    fn emplace_val<'b>(bytes: &'b mut [u8], v: &Val) -> Result<&'b mut Self, Error> {
        Self::new_in_place(bytes, PStrFieldInit { a: v.field(0).int() as u8, s: flatty::string::FromStr(v.field(1).str()) })
    }
    fn read(&self) -> Val {
        Val::R(vec![Val::I(self.a as i128), rd_str(&self.s)])
    }
    fn tweak(&mut self, g: &mut Gen) {
        tweak_str(&mut self.s, g);
    }
}

// default variant that is neither the first variant nor the first unit variant
#[flat(sized = false, default = true)]
pub enum MidDefault {
    Reset,
    #[default]
    Idle,
    Data(u16, FlatVec<u8, u8>),
    Stop,
}
impl ZooMsg for MidDefault {
    const NAME: &'static str = "MidDefault";
    fn default_val() -> Option<Val> {
        Some(Val::V(1, vec![]))
    }
    fn gen(g: &mut Gen) -> Val {
        match g.weighted(&[2, 2, 4, 1]) {
            0 => Val::V(0, vec![]),
            1 => Val::V(1, vec![]),
            2 => {
                let a = g.int(16, false);
                let n = g.len();
                Val::V(2, vec![Val::I(a), Val::L((0..n).map(|_| Val::I(g.int(8, false))).collect())])
            }
            _ => Val::V(3, vec![]),
        }
    }
    fn emplace_val<'b>(bytes: &'b mut [u8], v: &Val) -> Result<&'b mut Self, Error> {
        match v.tag() {
            0 => Self::new_in_place(bytes, MidDefaultInitReset),
            1 => Self::new_in_place(bytes, MidDefaultInitIdle),
            2 => Self::new_in_place(bytes, MidDefaultInitData(v.field(0).int() as u16, flatty::vec::FromIterator(v.field(1).list().iter().map(|x| x.int() as u8)))),
            _ => Self::new_in_place(bytes, MidDefaultInitStop),
        }
    }
    fn read(&self) -> Val {
        if !enum_tag_ok(self, 1, 4) {
            return Val::V(0, vec![]);
        }
        match self.as_ref() {
            MidDefaultRef::Reset => Val::V(0, vec![]),
            MidDefaultRef::Idle => Val::V(1, vec![]),
            MidDefaultRef::Data(a, v) => Val::V(2, vec![Val::I(*a as i128), rd_vec(v, |x| Val::I(*x as i128))]),
            MidDefaultRef::Stop => Val::V(3, vec![]),
        }
    }
    fn tweak(&mut self, g: &mut Gen) {
        if let MidDefaultMut::Data(_, v) = self.as_mut() {
            tweak_vec(v, g, |g| g.int(8, false) as u8);
        }
    }
}

// smallest variant last
#[flat(sized = false, default = true)]
pub enum LastUnit {
    Data(u32, FlatVec<u8, u16>),
    Pair(u16, u16),
    #[default]
    Ping,
}
impl ZooMsg for LastUnit {
    const NAME: &'static str = "LastUnit";
    fn default_val() -> Option<Val> {
        Some(Val::V(2, vec![]))
    }
    fn gen(g: &mut Gen) -> Val {
        match g.weighted(&[3, 2, 3]) {
            0 => {
                let a = g.int(32, false);
                let n = g.len();
                Val::V(0, vec![Val::I(a), Val::L((0..n).map(|_| Val::I(g.int(8, false))).collect())])
            }
            1 => Val::V(1, vec![Val::I(g.int(16, false)), Val::I(g.int(16, false))]),
            _ => Val::V(2, vec![]),
        }
    }
    fn emplace_val<'b>(bytes: &'b mut [u8], v: &Val) -> Result<&'b mut Self, Error> {
        match v.tag() {
            0 => Self::new_in_place(bytes, LastUnitInitData(v.field(0).int() as u32, flatty::vec::FromIterator(v.field(1).list().iter().map(|x| x.int() as u8)))),
            1 => Self::new_in_place(bytes, LastUnitInitPair(v.field(0).int() as u16, v.field(1).int() as u16)),
            _ => Self::new_in_place(bytes, LastUnitInitPing),
        }
    }
    fn read(&self) -> Val {
        if !enum_tag_ok(self, 1, 3) {
            return Val::V(0, vec![]);
        }
        match self.as_ref() {
            LastUnitRef::Data(a, v) => Val::V(0, vec![Val::I(*a as i128), rd_vec(v, |x| Val::I(*x as i128))]),
            LastUnitRef::Pair(a, b) => Val::V(1, vec![Val::I(*a as i128), Val::I(*b as i128)]),
            LastUnitRef::Ping => Val::V(2, vec![]),
        }
    }
    fn tweak(&mut self, g: &mut Gen) {
        if let LastUnitMut::Data(_, v) = self.as_mut() {
            tweak_vec(v, g, |g| g.int(8, false) as u8);
        }
    }
}

// every portable scalar type (signed ints and floats of both byte orders included)
#[flat(sized = false, portable = true, default = true)]
pub struct PortAll {
    pub a: le::I16,
    pub b: be::I16,
    pub c: le::I32,
    pub d: be::I32,
    pub e: le::I64,
    pub f: be::I64,
    pub g: le::F32,
    pub h: be::F32,
    pub i: le::F64,
    pub j: be::F64,
    pub l: le::U64,
    pub t: FlatVec<be::I16, be::U16>,
}
impl ZooMsg for PortAll {
    const NAME: &'static str = "PortAll";
    fn gen(g: &mut Gen) -> Val {
        let mut f = vec![
            Val::I(g.int(16, true)),
            Val::I(g.int(16, true)),
            Val::I(g.int(32, true)),
            Val::I(g.int(32, true)),
            Val::I(g.int(64, true)),
            Val::I(g.int(64, true)),
            Val::F(g.f32bits()),
            Val::F(g.f32bits()),
            Val::F(g.f64bits()),
            Val::F(g.f64bits()),
            Val::I(g.int(64, false)),
        ];
        let n = g.len();
        f.push(Val::L((0..n).map(|_| Val::I(g.int(16, true))).collect()));
        Val::R(f)
    }
    fn emplace_val<'b>(bytes: &'b mut [u8], v: &Val) -> Result<&'b mut Self, Error> {
        Self::new_in_place(
            bytes,
            PortAllInit {
                a: le::I16::from(v.field(0).int() as i16),
                b: be::I16::from(v.field(1).int() as i16),
                c: le::I32::from(v.field(2).int() as i32),
                d: be::I32::from(v.field(3).int() as i32),
                e: le::I64::from(v.field(4).int() as i64),
                f: be::I64::from(v.field(5).int() as i64),
                g: le::F32::from(f32::from_bits(v.field(6).bits() as u32)),
                h: be::F32::from(f32::from_bits(v.field(7).bits() as u32)),
                i: le::F64::from(f64::from_bits(v.field(8).bits())),
                j: be::F64::from(f64::from_bits(v.field(9).bits())),
                l: le::U64::from(v.field(10).int() as u64),
                t: flatty::vec::FromIterator(v.field(11).list().iter().map(|x| be::I16::from(x.int() as i16))),
            },
        )
    }
    fn read(&self) -> Val {
        Val::R(vec![
            Val::I(i16::from(self.a) as i128),
            Val::I(i16::from(self.b) as i128),
            Val::I(i32::from(self.c) as i128),
            Val::I(i32::from(self.d) as i128),
            Val::I(i64::from(self.e) as i128),
            Val::I(i64::from(self.f) as i128),
            Val::F(f32::from(self.g).to_bits() as u64),
            Val::F(f32::from(self.h).to_bits() as u64),
            Val::F(f64::from(self.i).to_bits()),
            Val::F(f64::from(self.j).to_bits()),
            Val::I(u64::from(self.l) as i128),
            rd_vec(&self.t, |x| Val::I(i16::from(*x) as i128)),
        ])
    }
    fn tweak(&mut self, g: &mut Gen) {
        if g.chance(1, 2) {
            self.d = be::I32::from(g.int(32, true) as i32);
        }
        tweak_vec(&mut self.t, g, |g| be::I16::from(g.int(16, true) as i16));
    }
}

// native signed integers and floats
#[flat(sized = false, default = true)]
pub struct Signed {
    pub a: i8,
    pub b: i16,
    pub c: i32,
    pub d: i64,
    pub e: f32,
    pub f: f64,
    pub g: i128,
    pub t: FlatVec<i64, u8>,
}
impl ZooMsg for Signed {
    const NAME: &'static str = "Signed";
    fn gen(g: &mut Gen) -> Val {
        let mut f = vec![
            Val::I(g.int(8, true)),
            Val::I(g.int(16, true)),
            Val::I(g.int(32, true)),
            Val::I(g.int(64, true)),
            Val::F(g.f32bits()),
            Val::F(g.f64bits()),
            Val::I(g.int(100, true)),
        ];
        let n = g.len();
        f.push(Val::L((0..n).map(|_| Val::I(g.int(64, true))).collect()));
        Val::R(f)
    }
    fn emplace_val<'b>(bytes: &'b mut [u8], v: &Val) -> Result<&'b mut Self, Error> {
        Self::new_in_place(
            bytes,
            SignedInit {
                a: v.field(0).int() as i8,
                b: v.field(1).int() as i16,
                c: v.field(2).int() as i32,
                d: v.field(3).int() as i64,
                e: f32::from_bits(v.field(4).bits() as u32),
                f: f64::from_bits(v.field(5).bits()),
                g: v.field(6).int(),
                t: flatty::vec::FromIterator(v.field(7).list().iter().map(|x| x.int() as i64)),
            },
        )
    }
    fn read(&self) -> Val {
        Val::R(vec![
            Val::I(self.a as i128),
            Val::I(self.b as i128),
            Val::I(self.c as i128),
            Val::I(self.d as i128),
            Val::F(self.e.to_bits() as u64),
            Val::F(self.f.to_bits()),
            Val::I(self.g),
            rd_vec(&self.t, |x| Val::I(*x as i128)),
        ])
    }
    fn tweak(&mut self, g: &mut Gen) {
        if g.chance(1, 2) {
            self.b = g.int(16, true) as i16;
        }
        tweak_vec(&mut self.t, g, |g| g.int(64, true) as i64);
    }
}

// unsized enums as the last field of the variants of another unsized enum
#[flat(sized = false, default = true)]
pub enum EnumInEnum {
    #[default]
    Z,
    W(u8, TagStr),
    V { a: u16, e: LastUnit },
    U(Bool),
}
impl ZooMsg for EnumInEnum {
    const NAME: &'static str = "EnumInEnum";
    fn default_val() -> Option<Val> {
        Some(Val::V(0, vec![]))
    }
    fn gen(g: &mut Gen) -> Val {
        match g.weighted(&[1, 3, 3, 1]) {
            0 => Val::V(0, vec![]),
            1 => Val::V(1, vec![Val::I(g.int(8, false)), TagStr::gen(g)]),
            2 => Val::V(2, vec![Val::I(g.int(16, false)), LastUnit::gen(g)]),
            _ => Val::V(3, vec![Val::B(g.boolean())]),
        }
    }
    fn emplace_val<'b>(bytes: &'b mut [u8], v: &Val) -> Result<&'b mut Self, Error> {
        match v.tag() {
            0 => Self::new_in_place(bytes, EnumInEnumInitZ),
            1 => Self::new_in_place(bytes, EnumInEnumInitW(v.field(0).int() as u8, emp::<TagStr>(v.field(1)))),
            2 => Self::new_in_place(bytes, EnumInEnumInitV { a: v.field(0).int() as u16, e: emp::<LastUnit>(v.field(1)) }),
            _ => Self::new_in_place(bytes, EnumInEnumInitU(Bool::from(v.field(0).boolean()))),
        }
    }
    fn read(&self) -> Val {
        if !enum_tag_ok(self, 1, 4) {
            return Val::V(0, vec![]);
        }
        match self.as_ref() {
            EnumInEnumRef::Z => Val::V(0, vec![]),
            EnumInEnumRef::W(a, e) => Val::V(1, vec![Val::I(*a as i128), e.read()]),
            EnumInEnumRef::V { a, e } => Val::V(2, vec![Val::I(*a as i128), e.read()]),
            EnumInEnumRef::U(b) => Val::V(3, vec![rd_bool(b)]),
        }
    }
    fn tweak(&mut self, g: &mut Gen) {
        match self.as_mut() {
            EnumInEnumMut::W(a, e) => {
                *a = g.int(8, false) as u8;
                e.tweak(g);
            }
            EnumInEnumMut::V { e, .. } => e.tweak(g),
            _ => {}
        }
    }
}
