//! Oracles evaluated over the recorded history of a run.  All of them are phrased relative to
//! the running tree itself: "what was sent" is the sender-side frame record (the bytes and the
//! deep read of the value the sender held at `send()`), never a reference codec.

use crate::party::Plan;
use crate::val::Val;
use crate::world::*;

fn v(prop: &str, oracle: &str, kind: &str, site: &str, detail: String) -> Option<Violation> {
    Some(Violation { property: prop.to_string(), oracle: oracle.to_string(), kind: kind.to_string(), site: site.to_string(), detail })
}

fn panic_site(desc: &str) -> String {
    // "message @ file:line" -> "file:line"
    desc.rsplit_once(" @ ").map(|x| x.1.to_string()).unwrap_or_else(|| "unknown".into())
}

/// Values handed out by the receiver, with retained guards collapsed: a retained guard must be
/// followed by a delivery of the same value (documented effect of `retain()`).
fn collapse(w: &World, prop: &str) -> Result<Vec<(Val, usize, usize)>, Option<Violation>> {
    let mut got = Vec::new();
    let mut pending_retained: Option<Val> = None;
    for (i, r) in w.recvs.iter().enumerate() {
        if let RecvOutcome::Msg { val, size, retained, .. } = &r.outcome {
            if let Some(pv) = pending_retained.take() {
                if &pv != val {
                    return Err(v(prop, "retain-redelivers", "mismatch", "recv", format!("recv #{}: after retain() the next recv returned {} instead of the retained {}", i, val.short(), pv.short())));
                }
            }
            if *retained {
                pending_retained = Some(val.clone());
            } else {
                got.push((val.clone(), *size, i));
            }
        } else if let Some(pv) = pending_retained.take() {
            // a retained message must still be there on the next call (unless that call failed on IO)
            if !matches!(r.outcome, RecvOutcome::ReadErr(_)) {
                return Err(v(prop, "retain-redelivers", "mismatch", "recv", format!("recv #{}: retained message {} was not returned again ({:?})", i, pv.short(), r.outcome)));
            } else {
                pending_retained = Some(pv);
            }
        }
    }
    Ok(got)
}

/// Oracle 6: hook invariants of the receive window.
fn window_invariants(w: &World, prop: &str, align: usize) -> Option<Violation> {
    for (i, r) in w.recvs.iter().enumerate() {
        for (tag, win) in [("before", r.window_before), ("after", r.window_after)] {
            let (s, e, c, p) = win;
            if !(s <= e && e <= c) {
                return v(prop, "6-window", "invariant", "buffer-window", format!("recv #{} {}: window {}..{} of capacity {}", i, tag, s, e, c));
            }
            if s % align != 0 {
                return v(prop, "6-window", "invariant", "buffer-window-align", format!("recv #{} {}: window.start {} not a multiple of ALIGN {}", i, tag, s, align));
            }
            if p {
                return v(prop, "6-window", "invariant", "receiver-poisoned", format!("recv #{}: receiver buffer poisoned", i));
            }
        }
    }
    None
}

/// Conservation inside the receiver: the bytes it holds (hook: window.end - window.start) are
/// exactly the bytes delivered to it minus the bytes consumed by dropped guards.
pub fn receiver_conservation(w: &World, prop: &str) -> Option<Violation> {
    // the end of the stream is stable: once Closed was reported with the stream exhausted, no
    // later recv() hands out a message
    if let Some(fc) = w.recvs.iter().position(|r| matches!(r.outcome, RecvOutcome::Closed) && r.stream_exhausted) {
        for (i, r) in w.recvs.iter().enumerate().skip(fc + 1) {
            if let RecvOutcome::Msg { val, .. } = &r.outcome {
                return v(prop, "2-sequence", "spurious", "recv", format!("recv #{} returned a message ({}) after recv #{} had reported Closed at the end of the stream", i, val.short(), fc));
            }
        }
    }
    for (i, r) in w.recvs.iter().enumerate() {
        if matches!(r.outcome, RecvOutcome::Panic(_) | RecvOutcome::InFlight | RecvOutcome::Waiting) {
            continue;
        }
        if let RecvOutcome::Msg { drop_panic: Some(_), .. } = r.outcome {
            continue;
        }
        let (s, e, _, _) = r.window_after;
        let held = e.saturating_sub(s);
        let expect = r.delivered_at_end.saturating_sub(r.consumed_after);
        if held != expect {
            return v(
                prop,
                "6b-conservation",
                "buffer-bytes",
                "buffer-window",
                format!("after recv #{}: the receive buffer holds {} bytes (window {}..{}), but {} were delivered and {} consumed (= {})", i, held, s, e, r.delivered_at_end, r.consumed_after, expect),
            );
        }
    }
    None
}

fn recv_panics(w: &World, prop: &str) -> Option<Violation> {
    for (i, r) in w.recvs.iter().enumerate() {
        match &r.outcome {
            RecvOutcome::Panic(d) => return v(prop, "no-panic", "panic", &panic_site(d), format!("recv #{} panicked: {}", i, d)),
            RecvOutcome::Msg { drop_panic: Some(d), .. } => return v(prop, "no-panic", "panic", &panic_site(d), format!("dropping the guard of recv #{} panicked: {}", i, d)),
            RecvOutcome::InFlight => return v(prop, "recv-returns", "hang", "recv", format!("recv #{} never returned", i)),
            RecvOutcome::Msg { invalid: Some(what), .. } => return v(prop, "valid-guard", "invalid-content", "recv", format!("recv #{} handed out a message that is not a valid value: {}", i, what)),
            _ => {}
        }
    }
    None
}

/// C07 / C08: fault-free delivery.
pub fn check_delivery(w: &World, plan: &Plan, prop: &str, is_async: bool) -> Option<Violation> {
    // 5. no panic anywhere
    if let Some(x) = recv_panics(w, prop) {
        return Some(x);
    }
    // a receiver that gives up early closes the pipe under the sender: report the root cause
    for (i, r) in w.recvs.iter().enumerate() {
        match &r.outcome {
            RecvOutcome::Closed if !r.stream_exhausted => {
                return v(prop, "2-sequence", "premature-closed", "recv", format!("recv #{} reported Closed although the sender had not finished / bytes were still in the pipe", i))
            }
            RecvOutcome::Parse(e) => return v(prop, "2-sequence", "parse-on-valid-stream", "recv", format!("recv #{} reported Parse({}) on a fault-free stream of sent messages", i, e)),
            RecvOutcome::ReadErr(e) => return v(prop, "2-sequence", "read-err-on-valid-stream", "recv", format!("recv #{} reported Read({}) although the pipe never failed", i, e)),
            _ => {}
        }
    }
    // 1. every send() returns Ok
    for (i, a) in w.attempts.iter().enumerate() {
        if let Some(p) = &a.panicked {
            return v(prop, "no-panic", "panic", &panic_site(p), format!("send() of message {} panicked: {}", i, p));
        }
        match &a.result {
            Some(Ok(())) => {}
            Some(Err(e)) => return v(prop, "1-send-ok", "send-failed", "send", format!("send() of message {} returned Err({}) although the pipe never failed", i, e)),
            None => return v(prop, "1-send-ok", "hang", "send", format!("send() of message {} never returned", i)),
        }
        if a.poisoned_after {
            return v(prop, "6-window", "invariant", "sender-poisoned", format!("sender poisoned after fault-free send #{}", i));
        }
    }
    if w.attempts.len() != plan.msgs.len() {
        return v(prop, "1-send-ok", "incomplete", "send", format!("{} of {} messages were sent", w.attempts.len(), plan.msgs.len()));
    }
    // 0. what the sender holds at send() is what the application built: the same construction
    //    read back identically in the planner's pattern-filled scratch buffer, so a difference
    //    means the value depends on what the (reused) send buffer held before
    for (i, a) in w.attempts.iter().enumerate() {
        if let Some(mp) = plan.msgs.get(a.msg_index) {
            if a.val != mp.expect_val {
                return v(
                    prop,
                    "0-requested-value",
                    "stale-buffer",
                    "send",
                    format!("send #{}: the application built {} but the value the sender holds reads {} (emplacement altered it, or it depends on the previous contents of the reused send buffer)", i, mp.expect_val.short(), a.val.short()),
                );
            }
        }
    }
    // 3. conservation on the wire: during send() i exactly frame i went out
    let mut off = 0usize;
    for (i, a) in w.attempts.iter().enumerate() {
        if a.sink_start != off || a.accepted != a.frame_len {
            return v(
                prop,
                "3-wire",
                "wire-length",
                "send",
                format!("send #{}: {} bytes put on the wire at offset {} (expected {} bytes at {})", i, a.accepted, a.sink_start, a.frame_len, off),
            );
        }
        let on_wire = &w.pipe.sink[a.sink_start..a.sink_start + a.frame.len().min(a.accepted)];
        if on_wire != &a.frame[..] {
            let at = on_wire.iter().zip(a.frame.iter()).position(|(x, y)| x != y).unwrap_or(0);
            return v(prop, "3-wire", "wire-bytes", "send", format!("send #{}: wire differs from the frame the sender held at byte {}", i, at));
        }
        off += a.accepted;
        // 7. async: completion => handed over and flushed
        if is_async {
            if a.accepted_total_at_end != off {
                return v(prop, "7-flushed", "not-handed-over", "send", format!("send #{} completed with {} bytes accepted in total, expected {}", i, a.accepted_total_at_end, off));
            }
            if a.flushed_through_at_end != a.accepted_total_at_end || !a.flushed_after_last {
                return v(
                    prop,
                    "7-flushed",
                    "not-flushed",
                    "send",
                    format!("send #{} completed but the pipe was flushed through byte {} of {}", i, a.flushed_through_at_end, a.accepted_total_at_end),
                );
            }
        }
    }
    if w.pipe.sink.len() != off {
        return v(prop, "3-wire", "wire-extra", "send", format!("sink holds {} bytes, frames sum to {}", w.pipe.sink.len(), off));
    }
    // 2. sequence
    let got = match collapse(w, prop) {
        Ok(g) => g,
        Err(x) => return x,
    };
    for (i, a) in w.attempts.iter().enumerate() {
        match got.get(i) {
            None => {
                let last = w.recvs.last().map(|r| format!("{:?}", r.outcome)).unwrap_or_default();
                let last: String = last.chars().take(120).collect();
                return v(prop, "2-sequence", "lost", "recv", format!("message {} of {} ({}) was sent but never delivered; receiver ended with {}", i, w.attempts.len(), a.val.short(), last));
            }
            Some((val, size, ri)) => {
                if val != &a.val {
                    return v(prop, "2-sequence", "altered", "recv", format!("message {}: sent {} but received {}", i, a.val.short(), val.short()));
                }
                // 4. consumption: dropping the guard consumed exactly the frame
                if *size != a.frame_len {
                    return v(prop, "4-consume", "size", "recv", format!("message {}: receiver-side size() {} != sent frame length {}", i, size, a.frame_len));
                }
                let r = &w.recvs[*ri];
                if let RecvOutcome::Msg { occupied, view_len, .. } = &r.outcome {
                    if *size > *occupied {
                        return v(prop, "4-consume", "over-consume", "recv", format!("message {}: size() {} exceeds the {} bytes held", i, size, occupied));
                    }
                    if *view_len > *occupied {
                        return v(prop, "4-consume", "view-beyond-received", "recv", format!("message {}: the handed-out value spans {} bytes, only {} are held by the receiver", i, view_len, occupied));
                    }
                }
            }
        }
    }
    if got.len() > w.attempts.len() {
        return v(prop, "2-sequence", "spurious", "recv", format!("receiver produced {} messages, only {} were sent; extra: {}", got.len(), w.attempts.len(), got[w.attempts.len()].0.short()));
    }
    // ... then Closed, exactly once, as the last outcome
    match w.recvs.last().map(|r| &r.outcome) {
        Some(RecvOutcome::Closed) => {}
        other => {
            let o = format!("{:?}", other);
            let o: String = o.chars().take(160).collect();
            return v(prop, "2-sequence", "no-closed", "recv", format!("after all messages the receiver ended with {} instead of Closed", o));
        }
    }
    // (a harness policy asks once more after the final Closed in some runs: the end is stable)
    let first_closed = w.recvs.iter().position(|r| matches!(r.outcome, RecvOutcome::Closed)).unwrap_or(usize::MAX);
    for (i, r) in w.recvs.iter().enumerate() {
        match &r.outcome {
            RecvOutcome::Msg { .. } if i < first_closed => {}
            RecvOutcome::Msg { val, .. } => {
                return v(prop, "2-sequence", "spurious", "recv", format!("recv #{} returned a message ({}) after Closed had been reported", i, val.short()));
            }
            RecvOutcome::Closed if i >= first_closed => {}
            other => {
                let o = format!("{:?}", other);
                let o: String = o.chars().take(160).collect();
                return v(prop, "2-sequence", "bad-outcome", "recv", format!("recv #{} returned {} on a fault-free stream", i, o));
            }
        }
    }
    if w.consumed > w.pipe.delivered_total {
        return v(prop, "4-consume", "over-consume", "recv", format!("consumed {} > delivered {}", w.consumed, w.pipe.delivered_total));
    }
    if let Some(x) = receiver_conservation(w, prop) {
        return Some(x);
    }
    window_invariants(w, prop, plan.align)
}

/// C09: behaviour under injected IO faults.
pub fn check_faults(w: &World, plan: &Plan, prop: &str, _is_async: bool) -> Option<Violation> {
    // panics: only a refusal on a poisoned sender is acceptable
    for (i, a) in w.attempts.iter().enumerate() {
        if let Some(p) = &a.panicked {
            if !a.poisoned_before {
                return v(prop, "no-panic", "panic", &panic_site(p), format!("send attempt #{} panicked: {}", i, p));
            }
        }
        if a.result.is_none() {
            return v(prop, "T1-termination", "hang", "send", format!("send attempt #{} never returned", i));
        }
    }
    if let Some(x) = recv_panics(w, prop) {
        return Some(x);
    }
    // T2 surfacing
    for (i, a) in w.attempts.iter().enumerate() {
        if a.saw_fail && matches!(a.result, Some(Ok(()))) {
            return v(prop, "T2-surfacing", "error-swallowed", "send", format!("send attempt #{}: the pipe failed (Ok(0) or Err) but send() returned Ok", i));
        }
    }
    for (i, r) in w.recvs.iter().enumerate() {
        // the statement asks for "an error": Read(_) is the natural one, Closed is accepted too
        // (an implementation may map e.g. ConnectionReset to end-of-stream); the receiver party
        // retries after such a Closed, so that nothing may be lost that way (R1)
        if r.saw_err_hard && !matches!(r.outcome, RecvOutcome::ReadErr(_) | RecvOutcome::Closed) {
            let o: String = format!("{:?}", r.outcome).chars().take(120).collect();
            return v(prop, "T2-surfacing", "error-swallowed", "recv", format!("recv #{}: the pipe returned a read error but recv() returned {}", i, o));
        }
        if matches!(r.outcome, RecvOutcome::Closed) && !(r.stream_exhausted || r.saw_eof || r.saw_err_hard) {
            return v(prop, "R1-retry", "premature-closed", "recv", format!("recv #{} reported Closed although the stream had not ended and no read failed during this call", i));
        }
        if r.saw_eof && !matches!(r.outcome, RecvOutcome::Closed) {
            let o: String = format!("{:?}", r.outcome).chars().take(120).collect();
            return v(prop, "T2-surfacing", "eof-not-closed", "recv", format!("recv #{}: end of stream was reported as {}", i, o));
        }
        if let RecvOutcome::ReadErr(k) = &r.outcome {
            if !r.saw_err && k != "OutOfMemory" {
                return v(prop, "T2-surfacing", "phantom-error", "recv", format!("recv #{} returned Read({}) although no read failed", i, k));
            }
            if !r.saw_err && k == "OutOfMemory" {
                return v(prop, "R1-retry", "oom-on-valid-stream", "recv", format!("recv #{} ran out of buffer on a stream of valid messages <= max_msg_len", i));
            }
        }
        if let RecvOutcome::Parse(e) = &r.outcome {
            return v(prop, "R1-retry", "parse-on-valid-stream", "recv", format!("recv #{} reported Parse({}) on a stream made of sent frames", i, e));
        }
    }
    // S1 sink shape
    let mut off = 0usize;
    let mut partial_seen: Option<usize> = None;
    for (i, a) in w.attempts.iter().enumerate() {
        if a.sink_start != off {
            return v(prop, "S1-sink", "wire-offset", "send", format!("attempt #{} starts at sink offset {} expected {}", i, a.sink_start, off));
        }
        if a.accepted > a.frame_len {
            return v(prop, "S1-sink", "wire-length", "send", format!("attempt #{}: {} bytes accepted for a {}-byte frame", i, a.accepted, a.frame_len));
        }
        let known = a.accepted.min(a.frame.len());
        if w.pipe.sink[off..off + known] != a.frame[..known] {
            return v(prop, "S1-sink", "wire-bytes", "send", format!("attempt #{}: bytes on the wire are not a prefix of the frame", i));
        }
        if matches!(a.result, Some(Ok(()))) && a.accepted != a.frame_len {
            return v(prop, "S1-sink", "ok-but-partial", "send", format!("attempt #{} returned Ok with {} of {} bytes written", i, a.accepted, a.frame_len));
        }
        if let Some(p) = partial_seen {
            if a.accepted > 0 {
                return v(prop, "S1-sink", "bytes-after-partial", "send", format!("attempt #{} wrote {} bytes after attempt #{} left a partial message", i, a.accepted, p));
            }
            if matches!(a.result, Some(Ok(()))) {
                return v(prop, "S1-sink", "ok-after-partial", "send", format!("attempt #{} returned Ok after attempt #{} left a partial message", i, p));
            }
        }
        if a.accepted > 0 && a.accepted < a.frame_len {
            partial_seen = Some(i);
        }
        // (the `poisoned` flag read through the hook is only a probe: the property is about what
        // reaches the sink, and that is checked directly above because the harness keeps
        // sending after a failure)
        off += a.accepted;
    }
    if w.pipe.sink.len() != off {
        return v(prop, "S1-sink", "wire-extra", "send", format!("sink holds {} bytes, attempts account for {}", w.pipe.sink.len(), off));
    }
    // R1: what the receiver obtained (over all recv calls, retries included) is a prefix of the
    // whole frames in the sink; if it reached Closed it obtained all of them.
    let whole: Vec<&Attempt> = w.attempts.iter().filter(|a| a.accepted == a.frame_len).collect();
    let got = match collapse(w, prop) {
        Ok(g) => g,
        Err(x) => return x,
    };
    for (i, (val, size, _)) in got.iter().enumerate() {
        match whole.get(i) {
            None => return v(prop, "R1-retry", "spurious", "recv", format!("receiver produced message #{} = {} but only {} whole frames are in the sink", i, val.short(), whole.len())),
            Some(a) => {
                if &a.val != val {
                    return v(prop, "R1-retry", "altered", "recv", format!("message #{}: sink holds {} but receiver produced {}", i, a.val.short(), val.short()));
                }
                if *size != a.frame_len {
                    return v(prop, "R1-retry", "size", "recv", format!("message #{}: size() {} != frame length {}", i, size, a.frame_len));
                }
            }
        }
    }
    // "reached the end": Closed reported when the writer had gone and every byte was delivered
    // (a Closed that an implementation reports for a failed read does not count)
    let reached_closed = matches!(w.recvs.last(), Some(r) if matches!(r.outcome, RecvOutcome::Closed) && r.stream_exhausted);
    let eof_forced = w.eof_at.is_some();
    if reached_closed && !eof_forced && got.len() != whole.len() {
        return v(prop, "R1-retry", "lost", "recv", format!("receiver reached Closed after {} messages but the sink holds {} whole frames", got.len(), whole.len()));
    }
    if reached_closed && eof_forced {
        // sender crash at byte k: every frame wholly before k must have been delivered
        let k = w.eof_at.unwrap();
        let mut end = 0;
        let mut n_before = 0;
        for a in &whole {
            end += a.frame_len;
            if end <= k {
                n_before += 1;
            }
        }
        if got.len() < n_before {
            return v(prop, "R1-retry", "lost", "recv", format!("stream ended at byte {}: {} whole frames precede it but only {} were delivered", k, n_before, got.len()));
        }
    }
    for (i, r) in w.recvs.iter().enumerate() {
        if let RecvOutcome::Msg { size, occupied, .. } = &r.outcome {
            if size > occupied {
                return v(prop, "R1-retry", "over-consume", "recv", format!("recv #{}: size() {} exceeds the {} bytes held", i, size, occupied));
            }
        }
    }
    if let Some(x) = receiver_conservation(w, prop) {
        return Some(x);
    }
    // receive window invariants hold under faults too (poison is a sender-side notion)
    for (i, r) in w.recvs.iter().enumerate() {
        let (s, e, c, _) = r.window_after;
        if !(s <= e && e <= c) || s % plan.align != 0 {
            return v(prop, "6-window", "invariant", "buffer-window", format!("recv #{}: window {}..{} cap {}", i, s, e, c));
        }
    }
    None
}
