//! Call-stack back-ends for the blocking world.  The parties run real blocking code; exactly one
//! of them runs at a time and the simulator's scheduler – never the OS – chooses which.
//!
//!  * `Direct`  – a single party runs on the caller's stack (pre-loaded pipe: C06 / C10); its
//!                pipe requests are always enabled, `suspend()` is a no-op.  Works under Miri.
//!  * `Coro`    – stackful coroutines (`generator` crate), ≈0.2 µs per switch: the default.
//!  * `Threads` – real OS threads parked on a Mutex+Condvar baton, exactly one released at a
//!                time: used under Miri for two-party runs and as a cross-check of `Coro`.

use crate::world::SimStop;
use std::any::Any;
use std::cell::RefCell;
use std::panic::{self, AssertUnwindSafe};
use std::sync::{Arc, Condvar, Mutex};

#[derive(Clone, Copy, Debug, PartialEq, Eq)]
pub enum BackendKind {
    Direct,
    Coro,
    Threads,
}

struct Baton {
    turn: Mutex<usize>,
    cv: Condvar,
}
const MAIN: usize = usize::MAX;

thread_local! {
    static MODE: RefCell<Mode> = const { RefCell::new(Mode::Direct) };
    static LAST_PANIC: RefCell<Option<(String, String)>> = const { RefCell::new(None) };
}

#[derive(Clone)]
enum Mode {
    Direct,
    Coro,
    Thread(Arc<Baton>, usize),
}

/// Hand control back to the scheduler; returns when the scheduler resumes this party.
pub fn suspend() {
    let m = MODE.with(|m| m.borrow().clone());
    match m {
        Mode::Direct => {}
        Mode::Coro => {
            #[cfg(feature = "coro")]
            {
                #[allow(deprecated)]
                generator::yield_with(());
            }
        }
        Mode::Thread(b, id) => {
            let mut t = b.turn.lock().unwrap();
            *t = MAIN;
            b.cv.notify_all();
            while *t != id {
                t = b.cv.wait(t).unwrap();
            }
        }
    }
}

/// Install (once per process) a panic hook that records message + location in a thread-local
/// instead of printing; `SimStop` unwinds are silent.
pub fn install_panic_hook() {
    static ONCE: std::sync::Once = std::sync::Once::new();
    ONCE.call_once(|| {
        let verbose = std::env::var("FLATSIM_PANIC_VERBOSE").is_ok();
        panic::set_hook(Box::new(move |info| {
            if info.payload().downcast_ref::<SimStop>().is_some() {
                return;
            }
            let msg = if let Some(s) = info.payload().downcast_ref::<&str>() {
                s.to_string()
            } else if let Some(s) = info.payload().downcast_ref::<String>() {
                s.clone()
            } else {
                "<non-string panic>".to_string()
            };
            let loc = info.location().map(|l| format!("{}:{}", l.file(), l.line())).unwrap_or_default();
            if verbose {
                eprintln!("[panic] {} at {}", msg, loc);
            }
            LAST_PANIC.with(|p| *p.borrow_mut() = Some((msg, loc)));
        }));
    });
}

#[derive(Clone, Debug)]
pub enum Caught {
    /// the simulator stopped the party (budget / abort)
    Stopped(&'static str),
    /// a genuine panic: (message, file:line)
    Panic(String, String),
}

impl Caught {
    pub fn describe(&self) -> String {
        match self {
            Caught::Stopped(s) => format!("stopped:{}", s),
            Caught::Panic(m, l) => format!("{} @ {}", m, short_loc(l)),
        }
    }
    pub fn site(&self) -> String {
        match self {
            Caught::Stopped(s) => s.to_string(),
            Caught::Panic(_, l) => short_loc(l),
        }
    }
}

/// Strip absolute prefixes so that signatures are stable across checkouts.
pub fn short_loc(l: &str) -> String {
    let l = l.replace('\\', "/");
    for key in ["/repo/", "/registry/src/", "/library/"] {
        if let Some(i) = l.find(key) {
            let rest = &l[i + key.len()..];
            if key == "/registry/src/" {
                return rest.split_once('/').map(|x| x.1.to_string()).unwrap_or_else(|| rest.to_string());
            }
            return rest.to_string();
        }
    }
    l
}

pub fn classify(payload: Box<dyn Any + Send>) -> Caught {
    if let Some(s) = payload.downcast_ref::<SimStop>() {
        return Caught::Stopped(s.0);
    }
    let (msg, loc) = LAST_PANIC.with(|p| p.borrow_mut().take()).unwrap_or_else(|| {
        let m = if let Some(s) = payload.downcast_ref::<&str>() {
            s.to_string()
        } else if let Some(s) = payload.downcast_ref::<String>() {
            s.clone()
        } else {
            "<panic>".into()
        };
        (m, String::new())
    });
    Caught::Panic(msg, loc)
}

/// `catch_unwind` that classifies the payload.
pub fn guarded<R>(f: impl FnOnce() -> R) -> Result<R, Caught> {
    panic::catch_unwind(AssertUnwindSafe(f)).map_err(classify)
}

pub type PartyFn = Box<dyn FnOnce() + Send + 'static>;

/// A set of parties that can be resumed one at a time.
pub trait Parties {
    /// Run party `id` until it suspends (`false`) or finishes (`true`).
    fn resume(&mut self, id: usize) -> bool;
}

// ---- coroutine back-end ---------------------------------------------------------------------
//
// Stacks are expensive to map, so each worker thread keeps a small pool of long-lived
// coroutines; a coroutine runs one party function per run and then parks until the next one.

#[cfg(feature = "coro")]
thread_local! {
    static JOBS: RefCell<Vec<Option<PartyFn>>> = const { RefCell::new(Vec::new()) };
    static DONE: RefCell<Vec<bool>> = const { RefCell::new(Vec::new()) };
    // The pool is leaked on purpose: dropping a parked generator cancels it, and the generator
    // crate does that by temporarily swapping the *global* panic hook – which races with panics
    // being recorded on other worker threads (observed: violations reported with an empty site).
    static POOL: &'static RefCell<Vec<Option<generator::Generator<'static, (), ()>>>> = Box::leak(Box::new(RefCell::new(Vec::new())));
}

#[cfg(feature = "coro")]
pub struct CoroParties {
    n: usize,
}

#[cfg(feature = "coro")]
impl CoroParties {
    pub fn new(fns: Vec<PartyFn>) -> Self {
        let n = fns.len();
        JOBS.with(|j| {
            let mut j = j.borrow_mut();
            j.clear();
            j.extend(fns.into_iter().map(Some));
        });
        DONE.with(|d| {
            let mut d = d.borrow_mut();
            d.clear();
            d.resize(n, false);
        });
        POOL.with(|p| {
            let mut p = p.borrow_mut();
            while p.len() < n {
                let id = p.len();
                p.push(Some(generator::Gn::<()>::new_opt(0x10000, move || loop {
                    let job = JOBS.with(|j| j.borrow_mut().get_mut(id).and_then(|x| x.take()));
                    if let Some(f) = job {
                        let _ = panic::catch_unwind(AssertUnwindSafe(f));
                        DONE.with(|d| d.borrow_mut()[id] = true);
                    }
                    #[allow(deprecated)]
                    generator::yield_with(());
                })));
            }
        });
        CoroParties { n }
    }
}

#[cfg(feature = "coro")]
impl Parties for CoroParties {
    fn resume(&mut self, id: usize) -> bool {
        debug_assert!(id < self.n);
        let prev = MODE.with(|m| std::mem::replace(&mut *m.borrow_mut(), Mode::Coro));
        // take the generator out of the pool while it runs (the party may start nested runs)
        let mut g = POOL.with(|p| p.borrow_mut()[id].take()).expect("coroutine in use");
        let _ = g.resume();
        POOL.with(|p| p.borrow_mut()[id] = Some(g));
        MODE.with(|m| *m.borrow_mut() = prev);
        DONE.with(|d| d.borrow()[id])
    }
}

// ---- thread back-end ------------------------------------------------------------------------

pub struct ThreadParties {
    baton: Arc<Baton>,
    handles: Vec<Option<std::thread::JoinHandle<()>>>,
    done: Arc<Mutex<Vec<bool>>>,
}

impl ThreadParties {
    pub fn new(fns: Vec<PartyFn>) -> Self {
        let baton = Arc::new(Baton { turn: Mutex::new(MAIN), cv: Condvar::new() });
        let n = fns.len();
        let done = Arc::new(Mutex::new(vec![false; n]));
        let mut handles = Vec::new();
        for (id, f) in fns.into_iter().enumerate() {
            let b = baton.clone();
            let d = done.clone();
            let h = std::thread::Builder::new()
                .stack_size(256 * 1024)
                .spawn(move || {
                    MODE.with(|m| *m.borrow_mut() = Mode::Thread(b.clone(), id));
                    {
                        let mut t = b.turn.lock().unwrap();
                        while *t != id {
                            t = b.cv.wait(t).unwrap();
                        }
                    }
                    f();
                    d.lock().unwrap()[id] = true;
                    let mut t = b.turn.lock().unwrap();
                    *t = MAIN;
                    b.cv.notify_all();
                })
                .expect("spawn party thread");
            handles.push(Some(h));
        }
        ThreadParties { baton, handles, done }
    }
}

impl Parties for ThreadParties {
    fn resume(&mut self, id: usize) -> bool {
        {
            let mut t = self.baton.turn.lock().unwrap();
            *t = id;
            self.baton.cv.notify_all();
            while *t != MAIN {
                t = self.baton.cv.wait(t).unwrap();
            }
        }
        let done = self.done.lock().unwrap()[id];
        if done {
            if let Some(h) = self.handles[id].take() {
                let _ = h.join();
            }
        }
        done
    }
}

// ---- direct back-end ------------------------------------------------------------------------

pub struct DirectParty {
    f: Option<PartyFn>,
}
impl DirectParty {
    pub fn new(f: PartyFn) -> Self {
        DirectParty { f: Some(f) }
    }
}
impl Parties for DirectParty {
    fn resume(&mut self, _id: usize) -> bool {
        if let Some(f) = self.f.take() {
            let prev = MODE.with(|m| std::mem::replace(&mut *m.borrow_mut(), Mode::Direct));
            f();
            MODE.with(|m| *m.borrow_mut() = prev);
        }
        true
    }
}

pub fn make_parties(kind: BackendKind, fns: Vec<PartyFn>) -> Box<dyn Parties> {
    match kind {
        BackendKind::Direct => {
            assert_eq!(fns.len(), 1, "direct back-end runs exactly one party");
            Box::new(DirectParty::new(fns.into_iter().next().unwrap()))
        }
        #[cfg(feature = "coro")]
        BackendKind::Coro => Box::new(CoroParties::new(fns)),
        #[cfg(not(feature = "coro"))]
        BackendKind::Coro => Box::new(ThreadParties::new(fns)),
        BackendKind::Threads => Box::new(ThreadParties::new(fns)),
    }
}
