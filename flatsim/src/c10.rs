//! C10 – hostile peer (stub; filled in below).
use crate::run::*;
use crate::zoo::ZooMsg;

pub fn run_c10<M: ZooMsg + ?Sized>(sc: &Scenario, keep_log: bool) -> RunOutput { run_delivery::<M>(sc, keep_log) }
pub fn systematic_c09(_b: &str, _s: u64, _t: &str) -> Vec<Scenario> { vec![] }
pub fn systematic_c10(_b: &str, _s: u64, _t: &str) -> Vec<Scenario> { vec![] }
pub fn systematic_splits(_p: &str, _b: &str, _s: u64, _t: &str) -> Vec<Scenario> { vec![] }
