//! C10 – the receiver against a hostile peer, plus the systematic (enumerated) layers of
//! C07/C08 (two-chunk splits), C09 (single fault at every pipe-call index) and C10 (truncation
//! at every position).

use crate::backend::guarded;
use crate::c06::{run_receiver_only, wire_of};
use crate::party::*;
use crate::run::*;
use crate::tape::{mix, Decider, St};
use crate::val::Val;
use crate::world::*;
use crate::zoo::{type_name, ZooMsg, N_TYPES};
use flatty::error::ErrorKind;
use flatty::AlignedBytes;
use std::sync::Arc;

fn viol(oracle: &str, kind: &str, site: &str, detail: String) -> Option<Violation> {
    Some(Violation { property: "C10".into(), oracle: oracle.into(), kind: kind.into(), site: site.into(), detail })
}

/// All constrained leaves of a value: (path, kind, char byte-offset) for every Bool and for every
/// ASCII character of every string.
fn leaves(v: &Val, path: &mut Vec<usize>, out: &mut Vec<(Vec<usize>, u8, usize)>) {
    match v {
        Val::B(_) => out.push((path.clone(), 0, 0)),
        Val::S(s) => {
            for (i, c) in s.char_indices() {
                if c.is_ascii() && c != '\0' {
                    out.push((path.clone(), 1, i));
                }
            }
        }
        Val::L(items) | Val::R(items) | Val::V(_, items) => {
            for (i, x) in items.iter().enumerate() {
                path.push(i);
                leaves(x, path, out);
                path.pop();
            }
        }
        _ => {}
    }
}

fn flip_at(v: &Val, path: &[usize], at: usize) -> Val {
    if path.is_empty() {
        return match v {
            Val::B(b) => Val::B(!*b),
            Val::S(s) => {
                let mut b = s.clone().into_bytes();
                b[at] = if b[at] == b'a' { b'b' } else { b'a' };
                Val::S(String::from_utf8(b).unwrap_or_default())
            }
            other => other.clone(),
        };
    }
    let rebuild = |items: &Vec<Val>| -> Vec<Val> {
        let mut c = items.clone();
        c[path[0]] = flip_at(&items[path[0]], &path[1..], at);
        c
    };
    match v {
        Val::L(items) => Val::L(rebuild(items)),
        Val::R(items) => Val::R(rebuild(items)),
        Val::V(t, items) => Val::V(*t, rebuild(items)),
        other => other.clone(),
    }
}

/// Change one constrained leaf (chosen by the decider) of a value: a Bool, or one ASCII
/// character of a string.  Returns the changed value and the kind of leaf.
fn flip_leaf(v: &Val, dec: &mut Decider) -> Option<(Val, u8)> {
    let mut out = Vec::new();
    leaves(v, &mut Vec::new(), &mut out);
    if out.is_empty() {
        return None;
    }
    let (path, kind, at) = out[dec.below(St::Bytes, out.len() as u32) as usize].clone();
    Some((flip_at(v, &path, at), kind))
}

/// Differentially confirmed aim: emplace the value and its one-leaf variant; if exactly one byte
/// of the frame differs (0/1 for a Bool, the two ASCII chars for a string) that byte *is* the
/// leaf.  Returns (offset in frame, a byte value the documentation declares invalid there).
fn confirmed_aim<M: ZooMsg + ?Sized>(val: &Val, frame: &[u8], cap: usize, dec: &mut Decider) -> Option<(usize, u8)> {
    let (v2, kind) = flip_leaf(val, dec)?;
    let mut buf = AlignedBytes::new(cap, M::ALIGN);
    buf.fill(0);
    let size = guarded(|| M::emplace_val(&mut buf, &v2).map(|m| m.size())).ok()?.ok()?;
    if size != frame.len() {
        return None;
    }
    let mut buf1 = AlignedBytes::new(cap, M::ALIGN);
    buf1.fill(0);
    let size1 = guarded(|| M::emplace_val(&mut buf1, val).map(|m| m.size())).ok()?.ok()?;
    if size1 != size {
        return None;
    }
    let diffs: Vec<usize> = (0..size).filter(|&i| buf[i] != buf1[i]).collect();
    if diffs.len() != 1 {
        return None;
    }
    let at = diffs[0];
    if frame[at] != buf1[at] {
        return None;
    }
    let ok = match kind {
        0 => (buf[at] == 0 && buf1[at] == 1) || (buf[at] == 1 && buf1[at] == 0),
        _ => buf[at].is_ascii() && buf1[at].is_ascii(),
    };
    if !ok {
        return None;
    }
    // a byte the documentation declares invalid there: Bool not in {0,1}; a byte that makes
    // the string ill-formed UTF-8 (stray 0xFF / lone continuation / lead byte without its tail)
    let bad = if kind == 0 { [2u8, 0xFF, 0x80, 3][dec.below(St::Bytes, 4) as usize] } else { [0xFFu8, 0xC3, 0xE2, 0x80, 0xF0][dec.below(St::Bytes, 5) as usize] };
    Some((at, bad))
}

#[derive(Debug)]
struct Hostile {
    stream: Vec<u8>,
    /// frames wholly before this offset are untouched
    first_edit: usize,
    /// framed corruption: (start, end) of the complete-but-malformed frame
    corrupted: Option<(usize, usize)>,
    kind: &'static str,
}

pub fn run_c10<M: ZooMsg + ?Sized>(sc: &Scenario, keep_log: bool) -> RunOutput {
    let mut dec = sc.decider();
    let mut stats: Stats = [0; P::_COUNT as usize];
    let nspec = if sc.aux.systematic { NSpec::Exactly(3) } else { NSpec::UpTo(4) };
    let mut plan = make_plan_opt::<M>(&mut dec, &mut stats, nspec, 1, !sc.aux.systematic);
    plan.retain_p = 0;
    plan.msgs.retain(|m| !m.unvalidated);
    let plan = Arc::new(plan);
    let wire = match guarded(|| wire_of::<M>(&plan)) {
        Ok(Ok(w)) => w,
        Ok(Err(e)) => {
            return RunOutput { violation: None, harness_error: Some(e), tape: dec.rec.clone(), full_hash: 0, shape_hash: 0, stats, ticks: 0, state_hashes: vec![], nontrivial: false, summary: None, calls: (0, 0, 0), stream_len: 0 }
        }
        Err(c) => {
            return RunOutput {
                violation: viol("setup", "panic", &c.site(), format!("building / sending the valid messages panicked: {}", c.describe())),
                harness_error: None,
                tape: dec.rec.clone(),
                full_hash: 0,
                shape_hash: 0,
                stats,
                ticks: 0,
                state_hashes: vec![],
                nontrivial: false,
                summary: None,
                calls: (0, 0, 0),
                stream_len: 0,
            }
        }
    };
    let mut valid: Vec<u8> = Vec::new();
    let mut bounds: Vec<(usize, usize)> = Vec::new();
    for f in &wire.frames {
        bounds.push((valid.len(), valid.len() + f.len()));
        valid.extend_from_slice(f);
    }
    let cap = plan.send_buf_len;
    let h = build_hostile::<M>(sc, &mut dec, &mut stats, &plan, &wire, &valid, &bounds, cap);
    let pads: Vec<usize> = bounds.iter().enumerate().map(|(i, b)| b.0 + plan.msgs[i].pad_start).collect();
    let stream = h.stream.clone();
    let mut w = run_receiver_only::<M>(sc, dec, stats, plan.clone(), stream.clone(), bounds.clone(), pads, "C10", keep_log);
    if w.violation.is_none() && w.harness_error.is_none() {
        w.violation = check_hostile::<M>(&w, &h, &wire, &bounds);
    }
    let nontrivial = w.pipe.delivered_total > 0;
    // reach: guards handed out for bytes at or behind the first hostile byte
    {
        let q = bounds.iter().take_while(|b| b.1 <= h.first_edit).count();
        let n_msgs = w.recvs.iter().filter(|r| matches!(r.outcome, RecvOutcome::Msg { .. })).count();
        if n_msgs > q {
            w.stats[P::hostile_guard_handed_out as usize] += (n_msgs - q) as u64;
        }
    }
    let mut out = output_of(w, &plan, nontrivial, keep_log);
    if let Some(serde_json::Value::Object(m)) = &mut out.summary {
        m.insert("hostile_kind".into(), h.kind.into());
        m.insert("hostile_stream".into(), format!("{:02x?}", &h.stream[..h.stream.len().min(96)]).into());
        m.insert("first_edit".into(), h.first_edit.into());
        m.insert("corrupted_frame".into(), format!("{:?}", h.corrupted).into());
    }
    out
}

#[allow(clippy::too_many_arguments)]
fn build_hostile<M: ZooMsg + ?Sized>(sc: &Scenario, dec: &mut Decider, stats: &mut Stats, plan: &Plan, wire: &crate::c06::Wire, valid: &[u8], bounds: &[(usize, usize)], cap: usize) -> Hostile {
    if let Some(t) = sc.aux.truncate {
        let t = t.min(valid.len());
        stats[P::data_truncate as usize] += 1;
        return Hostile { stream: valid[..t].to_vec(), first_edit: t, corrupted: None, kind: "truncated-valid" };
    }
    let kind = dec.weighted(St::Bytes, &[2, 3, 3, 3, 3, 2]);
    match kind {
        0 => {
            // pure garbage, sometimes longer than the receive buffer
            let len = dec.below(St::Bytes, (3 * plan.max_recv as u32).max(8)) as usize;
            let style = dec.below(St::Bytes, 3);
            let s: Vec<u8> = (0..len)
                .map(|_| match style {
                    0 => dec.below(St::Bytes, 256) as u8,
                    1 => [0u8, 1, 2, 0xFF, 0x7F, 0x80, 4, 8][dec.below(St::Bytes, 8) as usize],
                    _ => (dec.below(St::Bytes, 4)) as u8,
                })
                .collect();
            stats[P::data_garbage as usize] += 1;
            Hostile { stream: s, first_edit: 0, corrupted: None, kind: "garbage" }
        }
        1 if !valid.is_empty() => {
            // valid stream with 1-4 byte edits anywhere
            let mut s = valid.to_vec();
            let n = 1 + dec.below(St::Bytes, 4) as usize;
            let mut first = s.len();
            for _ in 0..n {
                let at = dec.below(St::Bytes, s.len() as u32) as usize;
                let old = s[at];
                s[at] = match dec.below(St::Bytes, 6) {
                    0 => old ^ (1 << dec.below(St::Bytes, 8)),
                    1 => 0,
                    2 => 0xFF,
                    3 => old.wrapping_add(1),
                    4 => old.wrapping_sub(1),
                    _ => dec.below(St::Bytes, 256) as u8,
                };
                if s[at] != old {
                    first = first.min(at);
                    stats[if old ^ s[at] == (old ^ s[at]) & (old ^ s[at]).wrapping_neg() { P::data_bitflip as usize } else { P::data_overwrite as usize }] += 1;
                }
            }
            Hostile { stream: s, first_edit: first, corrupted: None, kind: "mutated-valid" }
        }
        2 if !valid.is_empty() => {
            // header-aimed: overwrite bytes within the first few bytes of a frame (length fields,
            // tags, offsets live there) with boundary values, incl. lengths beyond max_msg_len
            let mut s = valid.to_vec();
            let fi = dec.below(St::Bytes, bounds.len() as u32) as usize;
            let (fs, fe) = bounds[fi];
            let span = (fe - fs).min(2 * M::ALIGN.max(4) + 4).max(1);
            let at = fs + dec.below(St::Bytes, span as u32) as usize;
            let width = [1usize, 2, 4, 8][dec.below(St::Bytes, 4) as usize].min(fe - at).max(1);
            let pat: u8 = [0xFF, 0x7F, 0x80, 0xFE, 0x01, 0x40][dec.below(St::Bytes, 6) as usize];
            let mut first = s.len();
            for i in 0..width {
                if s[at + i] != pat {
                    first = first.min(at + i);
                }
                s[at + i] = pat;
            }
            stats[P::data_header_aim as usize] += 1;
            Hostile { stream: s, first_edit: first.min(valid.len()), corrupted: None, kind: "header-aimed" }
        }
        3 if !valid.is_empty() => {
            // truncated valid stream, optionally followed by garbage
            let t = dec.below(St::Bytes, valid.len() as u32 + 1) as usize;
            let mut s = valid[..t].to_vec();
            if dec.chance(St::Bytes, 1, 3) {
                let extra = dec.below(St::Bytes, 12) as usize;
                for _ in 0..extra {
                    s.push(dec.below(St::Bytes, 256) as u8);
                }
            }
            stats[P::data_truncate as usize] += 1;
            Hostile { stream: s, first_edit: t, corrupted: None, kind: "truncated-valid" }
        }
        4 | 5 if !valid.is_empty() => {
            // framed corruption: one frame complete but malformed in content, framing intact
            let order: Vec<usize> = {
                let start = dec.below(St::Bytes, bounds.len() as u32) as usize;
                (0..bounds.len()).map(|i| (start + i) % bounds.len()).collect()
            };
            for fi in order {
                let (fs, fe) = bounds[fi];
                let frame = &valid[fs..fe];
                // (i) documentation-based, differentially aimed: Bool := 2, string byte := 0xFF
                let aim = if kind == 4 { confirmed_aim::<M>(&wire.vals[fi], frame, cap, dec) } else { None };
                let edit: Option<(usize, u8)> = match aim {
                    Some(a) => Some(a),
                    None => {
                        // (ii) tree-based: a single-byte edit that the tree's own validate calls
                        // a content error on the complete frame, on every prefix-extension of
                        // it that can occur, and never accepts on a shorter prefix
                        let mut found = None;
                        let tries = 12;
                        for _ in 0..tries {
                            let at = dec.below(St::Bytes, frame.len() as u32) as usize;
                            let nb = [0xFFu8, 2, 0x80, 0x7F, 3, 0xC0][dec.below(St::Bytes, 6) as usize];
                            if frame[at] == nb {
                                continue;
                            }
                            let mut c = frame.to_vec();
                            c[at] = nb;
                            if content_error_everywhere::<M>(&c, &valid[fe..]) {
                                found = Some((at, nb));
                                break;
                            }
                        }
                        found
                    }
                };
                if let Some((at, nb)) = edit {
                    let mut s = valid.to_vec();
                    s[fs + at] = nb;
                    if aim.is_some() {
                        stats[P::aim_confirmed as usize] += 1;
                    }
                    stats[P::data_framed_corruption as usize] += 1;
                    return Hostile { stream: s, first_edit: fs + at, corrupted: Some((fs, fe)), kind: if aim.is_some() { "framed-corruption(doc)" } else { "framed-corruption(tree)" } };
                }
            }
            stats[P::aim_unconfirmed as usize] += 1;
            Hostile { stream: valid.to_vec(), first_edit: valid.len(), corrupted: None, kind: "valid(no-aim)" }
        }
        _ => {
            let s: Vec<u8> = (0..dec.below(St::Bytes, 24)).map(|_| dec.below(St::Bytes, 256) as u8).collect();
            stats[P::data_garbage as usize] += 1;
            Hostile { stream: s, first_edit: 0, corrupted: None, kind: "garbage" }
        }
    }
}

/// True iff the tree's own validate reports a *content* error for the complete frame `c`, for
/// `c` followed by any prefix of `rest` at alignment-unit granularity, and never accepts a
/// proper prefix of `c`.  (Used only to construct a stream; the property under test is what the
/// receiver then does.)
fn content_error_everywhere<M: ZooMsg + ?Sized>(c: &[u8], rest: &[u8]) -> bool {
    let is_content = |bytes: &[u8]| -> Option<bool> {
        let b = crate::val::Acopy::new(bytes, M::ALIGN);
        match guarded(|| M::validate(&b)) {
            Ok(Ok(())) => Some(false),
            Ok(Err(e)) => Some(!matches!(e.kind, ErrorKind::InsufficientSize)),
            Err(_) => None,
        }
    };
    // the search below is quadratic in the frame length: not for the rare 64 KiB frames
    if c.len() > 2048 {
        return false;
    }
    if is_content(c) != Some(true) {
        return false;
    }
    let mut all = c.to_vec();
    all.extend_from_slice(rest);
    let mut k = c.len();
    let mut steps = 0;
    while k <= all.len() && steps < 512 {
        if is_content(&all[..k]) != Some(true) {
            return false;
        }
        k += M::ALIGN.max(1);
        steps += 1;
    }
    if is_content(&all) != Some(true) {
        return false;
    }
    for k in 0..c.len() {
        let b = crate::val::Acopy::new(&c[..k], M::ALIGN);
        match guarded(|| M::validate(&b)) {
            Ok(Ok(())) => return false,
            Err(_) => return false,
            _ => {}
        }
    }
    true
}

fn check_hostile<M: ZooMsg + ?Sized>(w: &World, h: &Hostile, wire: &crate::c06::Wire, bounds: &[(usize, usize)]) -> Option<Violation> {
    // O1: every recv ends in one of the four outcomes; no panic anywhere
    for (i, r) in w.recvs.iter().enumerate() {
        match &r.outcome {
            RecvOutcome::Panic(d) => {
                let site = d.rsplit_once(" @ ").map(|x| x.1.to_string()).unwrap_or_default();
                return viol("O1-outcomes", "panic", &site, format!("recv #{} on a hostile stream ({}) panicked: {}", i, h.kind, d));
            }
            RecvOutcome::Msg { drop_panic: Some(d), .. } => {
                let site = d.rsplit_once(" @ ").map(|x| x.1.to_string()).unwrap_or_default();
                return viol("O1-outcomes", "panic", &site, format!("dropping the guard of recv #{} ({}) panicked: {}", i, h.kind, d));
            }
            RecvOutcome::InFlight => return viol("O1-outcomes", "hang", "recv", format!("recv #{} never returned", i)),
            RecvOutcome::ReadErr(k) if k != "OutOfMemory" => return viol("O1-outcomes", "phantom-error", "recv", format!("recv #{} returned Read({}) although no read failed", i, k)),
            // O2: a guard lies inside the bytes received and never over-consumes
            RecvOutcome::Msg { size, view_len, occupied, invalid, .. } => {
                if let Some(what) = invalid {
                    return viol("O2-guard-valid", "invalid-content", "recv", format!("recv #{} ({}) handed out a message that is not a valid value: {}", i, h.kind, what));
                }
                if size > occupied {
                    return viol("O2-guard-bounds", "over-consume", "recv", format!("recv #{} ({}): guard size() {} exceeds the {} bytes received and not yet consumed", i, h.kind, size, occupied));
                }
                if view_len > occupied {
                    return viol("O2-guard-bounds", "view-beyond-received", "recv", format!("recv #{} ({}): the mapped value spans {} bytes, only {} were received", i, h.kind, view_len, occupied));
                }
                if *size == 0 {
                    return viol("O2-guard-bounds", "zero-size", "recv", format!("recv #{}: guard of size 0", i));
                }
            }
            _ => {}
        }
        let (s, e, c, _) = r.window_after;
        if !(s <= e && e <= c) {
            return viol("O2-guard-bounds", "window", "recv", format!("recv #{}: window {}..{} capacity {}", i, s, e, c));
        }
    }
    if w.consumed > w.pipe.delivered_total {
        return viol("O2-guard-bounds", "over-consume", "recv", format!("consumed {} > received {}", w.consumed, w.pipe.delivered_total));
    }
    if let Some(x) = crate::oracle::receiver_conservation(w, "C10") {
        return Some(x);
    }
    // O4: frames wholly before the first edit are delivered intact and in order
    let q = bounds.iter().take_while(|b| b.1 <= h.first_edit).count();
    let msgs: Vec<(&Val, usize)> = w.recvs.iter().filter_map(|r| if let RecvOutcome::Msg { val, size, .. } = &r.outcome { Some((val, *size)) } else { None }).collect();
    for i in 0..q {
        match msgs.get(i) {
            Some((val, size)) if *val == &wire.vals[i] && *size == bounds[i].1 - bounds[i].0 => {}
            other => {
                let o: String = format!("{:?}", other).chars().take(140).collect();
                return viol("O4-clean-prefix", "mismatch", "recv", format!("valid message #{} precedes the first hostile byte (offset {}) but was not delivered intact: {} [{}]", i, h.first_edit, o, h.kind));
            }
        }
    }
    // O3: a frame that is complete but malformed in content => Parse, without asking for more
    if let Some((fs, fe)) = h.corrupted {
        let fi = bounds.iter().position(|b| b.0 == fs).unwrap_or(0);
        // the outcome right after the fi clean messages
        let mut seen_msgs = 0;
        let mut verdict: Option<&RecvRec> = None;
        let mut verdict_at = 0usize;
        for (ri, r) in w.recvs.iter().enumerate() {
            if seen_msgs == fi {
                verdict = Some(r);
                verdict_at = ri;
                break;
            }
            if matches!(r.outcome, RecvOutcome::Msg { .. }) {
                seen_msgs += 1;
            }
        }
        match verdict {
            Some(r) => match &r.outcome {
                RecvOutcome::Parse(_) => {
                    // it must not have read beyond the point where the whole frame was there,
                    // except for bytes that arrived in the same read call
                    if r.delivered_at_start >= fe && r.calls > 0 {
                        return viol("O3-parse-not-read-more", "read-more", "recv", format!("the malformed frame {}..{} was already complete when recv started, yet recv issued {} read call(s) before reporting Parse", fs, fe, r.calls));
                    }
                    // asked again while it still holds the very same bytes (nothing consumed,
                    // window unchanged): the stream still continues with that complete malformed
                    // message, so the answer is again Parse and again without asking for more
                    if let Some(n) = w.recvs.get(verdict_at + 1) {
                        let same = (n.window_before.0, n.window_before.1) == (r.window_after.0, r.window_after.1) && n.consumed_before == r.consumed_after && r.delivered_at_end >= fe;
                        if same && !matches!(n.outcome, RecvOutcome::Panic(_)) && (!matches!(n.outcome, RecvOutcome::Parse(_)) || n.calls > 0) {
                            let o: String = format!("{:?}", n.outcome).chars().take(100).collect();
                            return viol(
                                "O3-parse-not-read-more",
                                "read-more-when-asked-again",
                                "recv",
                                format!("recv reported Parse for the complete malformed frame {}..{}; called again with the same bytes still at the head of its buffer it issued {} read call(s) and returned {}", fs, fe, n.calls, o),
                            );
                        }
                    }
                }
                other => {
                    let o: String = format!("{:?}", other).chars().take(140).collect();
                    return viol(
                        "O3-parse-not-read-more",
                        "no-parse-error",
                        "recv",
                        format!("frame {}..{} is complete but malformed in content ({}); instead of Parse the receiver returned {}", fs, fe, h.kind, o),
                    );
                }
            },
            None => return viol("O3-parse-not-read-more", "no-parse-error", "recv", format!("receiver stopped before reaching the malformed frame {}..{}", fs, fe)),
        }
    }
    None
}

// ---------------------------------------------------------------------------------------------
// systematic layers

fn sys_base(prop: &str, world: WorldKind, backend: &str, ty: usize, seed: u64) -> Scenario {
    Scenario {
        version: 1,
        property: prop.to_string(),
        world,
        backend: backend.to_string(),
        type_index: ty,
        type_name: type_name(ty).to_string(),
        seed,
        tape: None,
        aux: Aux { systematic: true, ..Default::default() },
        expect_signature: None,
        expect_log_hash: None,
        summary: None,
    }
}

/// Types used by the systematic layers: all hand-written ones plus 24 of the generated family
/// instantiations (a slice that depends on the check seed).
fn sys_types(seed: u64) -> Vec<usize> {
    let mut v: Vec<usize> = (0..crate::zoo::N_HAND).collect();
    let ng = crate::zoo_gen_list::N_GEN;
    let start = (seed as usize).wrapping_mul(31) % ng;
    for k in 0..24 {
        v.push(crate::zoo::N_HAND + (start + k * 5) % ng);
    }
    v
}

fn bases_per_type(tier: &str, quick: u64, thorough: u64) -> u64 {
    if tier == "thorough" {
        thorough
    } else {
        quick
    }
}

/// C09: a fixed 3-message stream x EVERY pipe-call index x fault kind as a single fault.
pub fn systematic_c09(backend: &str, seed: u64, tier: &str) -> Vec<Scenario> {
    let mut out = Vec::new();
    let nb = bases_per_type(tier, 2, 10);
    for ty in sys_types(seed) {
        for world in [WorldKind::Blocking, WorldKind::Async] {
            for b in 0..nb {
                let s = mix(mix(seed, 0xC09), (ty as u64) << 8 | b);
                let base = sys_base("C09", world, backend, ty, s);
                let o = crate::batch::run_scenario(&base, false);
                let (wc, rc, fc) = o.calls;
                let kinds: [u32; 7] = [0, 1, 2, 4, 6, 8, 10]; // Interrupted, WouldBlock, TimedOut, ConnectionReset, WriteZero, Other, UnexpectedEof
                for idx in 0..wc.min(80) {
                    let mut whats: Vec<(u32, bool)> = vec![(0, false)];
                    for k in kinds {
                        whats.push((1 + k, false));
                        whats.push((1 + k, true));
                    }
                    for (what, persistent) in whats {
                        let mut sc = base.clone();
                        sc.aux.forced = Some(Forced { side: 0, index: idx, what, persistent });
                        out.push(sc);
                    }
                }
                for idx in 0..rc.min(80) {
                    let mut whats: Vec<(u32, bool)> = vec![(0, false)];
                    for k in kinds {
                        whats.push((1 + k, false));
                        whats.push((1 + k, true));
                    }
                    for (what, persistent) in whats {
                        let mut sc = base.clone();
                        sc.aux.forced = Some(Forced { side: 1, index: idx, what, persistent });
                        out.push(sc);
                    }
                }
                if world == WorldKind::Async {
                    for idx in 0..fc.min(16) {
                        for what in [0u32, 1] {
                            let mut sc = base.clone();
                            sc.aux.forced = Some(Forced { side: 2, index: idx, what, persistent: false });
                            out.push(sc);
                        }
                    }
                }
            }
        }
    }
    out
}

/// C10: a valid 3-message stream truncated at EVERY position.
pub fn systematic_c10(backend: &str, seed: u64, tier: &str) -> Vec<Scenario> {
    let mut out = Vec::new();
    let nb = bases_per_type(tier, 2, 12);
    for ty in sys_types(seed) {
        for world in [WorldKind::Blocking, WorldKind::Async] {
            for b in 0..nb {
                let s = mix(mix(seed, 0xC10), (ty as u64) << 8 | b);
                let mut base = sys_base("C10", world, backend, ty, s);
                base.aux.truncate = Some(usize::MAX);
                let o = crate::batch::run_scenario(&base, false);
                for t in 0..o.stream_len {
                    let mut sc = base.clone();
                    sc.aux.truncate = Some(t);
                    out.push(sc);
                }
            }
        }
    }
    out
}

/// C07 / C08: every single split point of the write stream and of the read stream
/// (two-chunk compositions) of a fixed 3-message stream; thorough: all pairs.
pub fn systematic_splits(prop: &str, backend: &str, seed: u64, tier: &str) -> Vec<Scenario> {
    let mut out = Vec::new();
    let world = if prop == "C08" { WorldKind::Async } else { WorldKind::Blocking };
    let nb = bases_per_type(tier, 2, 6);
    for ty in sys_types(seed) {
        for b in 0..nb {
            let s = mix(mix(seed, 0x5711), (ty as u64) << 8 | b);
            let mut base = sys_base(prop, world, backend, ty, s);
            base.aux.wsplit = Some(usize::MAX);
            let o = crate::batch::run_scenario(&base, false);
            let n = o.stream_len;
            for r in 1..n {
                let mut sc = base.clone();
                sc.aux.rsplit = Some(r);
                out.push(sc);
            }
            for wv in 1..n {
                let mut sc = base.clone();
                sc.aux.wsplit = Some(wv);
                out.push(sc);
            }
            if tier == "thorough" && n <= 96 {
                for r in 1..n {
                    for wv in 1..n {
                        let mut sc = base.clone();
                        sc.aux.rsplit = Some(r);
                        sc.aux.wsplit = Some(wv);
                        out.push(sc);
                    }
                }
            }
        }
    }
    out
}
