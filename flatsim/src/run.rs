//! One simulated run = a pure function of a `Scenario` (seed or decision tape) and the code.

use crate::backend::{make_parties, BackendKind, Caught, PartyFn};
use crate::party::*;
use crate::sched::{run_async, run_blocking, Task};
use crate::tape::{Decider, St, Tape};
use crate::world::*;
use crate::zoo::ZooMsg;
use serde::{Deserialize, Serialize};
use std::sync::{Arc, Mutex};

#[derive(Clone, Copy, Debug, PartialEq, Eq, Serialize, Deserialize)]
pub enum WorldKind {
    #[serde(rename = "blocking")]
    Blocking,
    #[serde(rename = "async")]
    Async,
}

#[derive(Clone, Debug, Default, PartialEq, Eq, Serialize, Deserialize)]
pub struct Aux {
    /// C06: cut position of the target frame (sender crash after k bytes)
    #[serde(default, skip_serializing_if = "Option::is_none")]
    pub cut: Option<usize>,
    /// C06: (suffix family, suffix length)
    #[serde(default, skip_serializing_if = "Option::is_none")]
    pub ext: Option<(u8, usize)>,
    /// C09 systematic layer
    #[serde(default, skip_serializing_if = "Option::is_none")]
    pub forced: Option<Forced>,
    /// C10 systematic layer: truncate the valid stream at this byte
    #[serde(default, skip_serializing_if = "Option::is_none")]
    pub truncate: Option<usize>,
    /// C07/C08 systematic layer: the write stream / read stream is split at this absolute offset
    #[serde(default, skip_serializing_if = "Option::is_none")]
    pub wsplit: Option<usize>,
    #[serde(default, skip_serializing_if = "Option::is_none")]
    pub rsplit: Option<usize>,
    /// replay of a zoo self-test failure (library panic on a valid value)
    #[serde(default, skip_serializing_if = "std::ops::Not::not")]
    pub selftest: bool,
    /// systematic layers use a fixed small stream and benign knobs
    #[serde(default, skip_serializing_if = "std::ops::Not::not")]
    pub systematic: bool,
}

#[derive(Clone, Debug, Serialize, Deserialize)]
pub struct Scenario {
    pub version: u32,
    pub property: String,
    pub world: WorldKind,
    /// "coro" | "threads" | "direct"
    pub backend: String,
    pub type_index: usize,
    #[serde(default)]
    pub type_name: String,
    /// run seed (PRNG mode) – ignored when `tape` is present
    pub seed: u64,
    #[serde(default, skip_serializing_if = "Option::is_none")]
    pub tape: Option<Tape>,
    #[serde(default)]
    pub aux: Aux,
    /// what the run is expected to show when replayed (filled in for reported violations)
    #[serde(default, skip_serializing_if = "Option::is_none")]
    pub expect_signature: Option<String>,
    #[serde(default, skip_serializing_if = "Option::is_none")]
    pub expect_log_hash: Option<String>,
    /// human-readable account of the run (not an input)
    #[serde(default, skip_serializing_if = "Option::is_none")]
    pub summary: Option<serde_json::Value>,
}

impl Scenario {
    pub fn decider(&self) -> Decider {
        match &self.tape {
            Some(t) => Decider::from_tape(t.clone()),
            None => Decider::from_seed(self.seed),
        }
    }
    pub fn backend_kind(&self) -> BackendKind {
        match self.backend.as_str() {
            "threads" => BackendKind::Threads,
            "direct" => BackendKind::Direct,
            _ => BackendKind::Coro,
        }
    }
}

pub struct RunOutput {
    pub violation: Option<Violation>,
    pub harness_error: Option<String>,
    pub tape: Tape,
    pub full_hash: u64,
    pub shape_hash: u64,
    pub stats: Stats,
    pub ticks: u64,
    pub state_hashes: Vec<u64>,
    pub nontrivial: bool,
    pub summary: Option<serde_json::Value>,
    /// (write, read, flush) pipe calls made – used to size the systematic layers
    pub calls: (u32, u32, u32),
    pub stream_len: usize,
}

// ---------------------------------------------------------------------------------------------
// knobs

pub fn draw_knobs(prop: &str, world: WorldKind, d: &mut Decider, plan: &Plan) -> Knobs {
    let caps = [1usize, 2, 3, plan.align.max(4), 7, 17, 64, 2 * plan.max_send + 1, 4096];
    let pipe_cap = caps[d.weighted(St::Cfg, &[3, 2, 2, 2, 2, 3, 2, 2, 2])];
    let mut k = Knobs::benign(pipe_cap);
    k.wchunk_mode = d.weighted(St::Cfg, &[2, 2, 3, 3]) as u8;
    k.rchunk_mode = d.weighted(St::Cfg, &[2, 3, 3, 3]) as u8;
    k.sched_mode = d.weighted(St::Cfg, &[3, 2, 2, 2]) as u8;
    let is_async = world == WorldKind::Async;
    if is_async {
        // Pending results and poll order are the *schedule* of the async world, not faults
        k.p_pend = [0u32, 60, 250, 600][d.weighted(St::Cfg, &[2, 3, 3, 2])];
        k.p_f_pend = [0u32, 100, 500][d.weighted(St::Cfg, &[2, 2, 2])];
        k.max_wake_delay = [0u32, 1, 5, 50][d.weighted(St::Cfg, &[2, 2, 2, 1])];
        k.spurious_polls = d.chance(St::Cfg, 1, 3);
        k.max_faults = [0u32, 3, 20, 300][d.weighted(St::Cfg, &[1, 2, 3, 2])];
    }
    if prop == "C09" {
        // swarm: each fault kind is enabled only in a random subset of runs
        let rates = [0u32, 8, 40, 160];
        k.p_w_err = rates[d.weighted(St::Cfg, &[3, 2, 2, 1])];
        k.p_w_zero = rates[d.weighted(St::Cfg, &[4, 2, 1, 1])];
        k.p_r_err = rates[d.weighted(St::Cfg, &[3, 2, 2, 1])];
        k.p_persist = [0u32, 256, 1024][d.weighted(St::Cfg, &[3, 2, 1])];
        if is_async {
            k.p_f_err = rates[d.weighted(St::Cfg, &[4, 2, 1, 1])];
        }
        k.err_kinds = 1 + d.below(St::Cfg, (1 << ERR_KINDS.len()) - 1);
        let base = [1u32, 1, 2, 3, 8][d.weighted(St::Cfg, &[3, 3, 2, 2, 1])];
        k.max_faults = k.max_faults.max(base) + if is_async { base } else { 0 };
    }
    k
}

// ---------------------------------------------------------------------------------------------
// delivery runs (C07 / C08 / C09)

pub fn run_delivery<M: ZooMsg + ?Sized>(sc: &Scenario, keep_log: bool) -> RunOutput {
    let prop: &'static str = match sc.property.as_str() {
        "C07" => "C07",
        "C08" => "C08",
        _ => "C09",
    };
    let mut dec = sc.decider();
    let mut stats: Stats = [0; P::_COUNT as usize];
    let (nspec, tweak_p) = if sc.aux.systematic {
        (NSpec::Exactly(3), 0)
    } else if prop == "C09" {
        (NSpec::UpTo(5), 1)
    } else {
        (NSpec::UpTo(8), 2)
    };
    let plan = Arc::new(make_plan_opt::<M>(&mut dec, &mut stats, nspec, tweak_p, !sc.aux.systematic));
    let mut knobs = draw_knobs(if sc.aux.systematic && prop == "C09" { "C07" } else { prop }, sc.world, &mut dec, &plan);
    if plan.bmode == 2 {
        // 64 KiB messages: no byte-at-a-time transport (a run would cost 100 000s of steps)
        if knobs.wchunk_mode == 1 {
            knobs.wchunk_mode = 2;
        }
        if knobs.rchunk_mode == 1 {
            knobs.rchunk_mode = 2;
        }
        knobs.pipe_cap = knobs.pipe_cap.max(64);
    }
    if sc.aux.systematic {
        // the single forced fault / split is the only disturbance
        knobs.p_pend = 0;
        knobs.p_f_pend = 0;
        knobs.max_faults = 1;
        if sc.aux.wsplit.is_some() || sc.aux.rsplit.is_some() {
            knobs.pipe_cap = 4096;
            knobs.wchunk_mode = 0;
            knobs.rchunk_mode = 0;
            knobs.sched_mode = 1;
        }
    }
    let mut world = World::new(dec, knobs, keep_log);
    world.split_w = sc.aux.wsplit;
    world.split_r = sc.aux.rsplit;
    world.stats = stats;
    world.prop = prop;
    world.align = M::ALIGN;
    world.forced = sc.aux.forced;
    let mut off = 0;
    for m in &plan.msgs {
        world.frame_bounds.push((off, off + m.len));
        world.frame_pad_start.push(off + m.pad_start);
        off += m.len;
    }
    let sh: Shared = Arc::new(Mutex::new(world));
    match sc.world {
        WorldKind::Blocking => {
            let (s1, p1) = (sh.clone(), plan.clone());
            let (s2, p2) = (sh.clone(), plan.clone());
            let fns: Vec<PartyFn> = vec![Box::new(move || sender_blocking::<M>(s1, p1)), Box::new(move || receiver_blocking::<M>(s2, p2))];
            let kind = match sc.backend_kind() {
                BackendKind::Direct => BackendKind::Coro,
                k => k,
            };
            let mut parties = make_parties(kind, fns);
            run_blocking(&sh, parties.as_mut(), 2);
        }
        WorldKind::Async => {
            let t1: Task = Box::pin(sender_async::<M>(sh.clone(), plan.clone()));
            let t2: Task = Box::pin(receiver_async::<M>(sh.clone(), plan.clone()));
            let caught = run_async(&sh, vec![Some(t1), Some(t2)]);
            fold_async_panics(&sh, caught);
        }
    }
    let w = match Arc::try_unwrap(sh) {
        Ok(m) => m.into_inner().unwrap_or_else(|p| p.into_inner()),
        Err(_) => panic!("world still shared after run"),
    };
    finish(w, &plan, prop, sc.world == WorldKind::Async, keep_log)
}

/// A panic that unwound an async task is attributed to the library call in flight.
pub fn fold_async_panics(sh: &Shared, caught: Vec<Option<Caught>>) {
    let mut w = lock(sh);
    for (id, c) in caught.into_iter().enumerate() {
        match c {
            Some(c @ Caught::Panic(..)) => {
                if id as u8 == SENDER {
                    let in_flight = w.attempts.last().map(|a| a.result.is_none()).unwrap_or(false);
                    if in_flight {
                        let d = c.describe();
                        let a = w.attempts.last_mut().unwrap();
                        a.result = Some(Err("panic".into()));
                        a.panicked = Some(d);
                        w.in_send = false;
                    } else {
                        let site = c.site();
                        w.violate("", "no-panic", "panic", &site, format!("sender task panicked outside send(): {}", c.describe()));
                    }
                } else {
                    let in_flight = matches!(w.recvs.last().map(|r| &r.outcome), Some(RecvOutcome::InFlight));
                    if in_flight {
                        w.recvs.last_mut().unwrap().outcome = RecvOutcome::Panic(c.describe());
                        w.in_recv = false;
                    } else {
                        let site = c.site();
                        w.violate("", "no-panic", "panic", &site, format!("receiver task panicked outside recv(): {}", c.describe()));
                    }
                }
            }
            _ => {}
        }
    }
}

pub fn finish(mut w: World, plan: &Plan, prop: &'static str, is_async: bool, keep_log: bool) -> RunOutput {
    if w.violation.is_none() && w.harness_error.is_none() {
        let v = match prop {
            "C07" | "C08" => crate::oracle::check_delivery(&w, plan, prop, is_async),
            _ => crate::oracle::check_faults(&w, plan, prop, is_async),
        };
        w.violation = v;
    }
    if let Some(v) = &mut w.violation {
        if v.property.is_empty() {
            v.property = prop.to_string();
        }
    }
    let delivered = w.stats[P::msgs_delivered as usize];
    let nontrivial = delivered > 0 || w.faults_fired > 0;
    output_of(w, plan, nontrivial, keep_log)
}

pub fn output_of(mut w: World, plan: &Plan, nontrivial: bool, keep_log: bool) -> RunOutput {
    let summary = if keep_log { Some(summarize(&w, plan)) } else { None };
    RunOutput {
        calls: (w.w_calls, w.r_calls, w.f_calls),
        stream_len: w.pipe.sink.len(),
        violation: w.violation.clone(),
        harness_error: w.harness_error.clone(),
        tape: w.dec.rec.clone(),
        full_hash: w.full_hash.0,
        shape_hash: w.shape_hash.0,
        stats: w.stats,
        ticks: w.ticks,
        state_hashes: std::mem::take(&mut w.state_hashes),
        nontrivial,
        summary,
    }
}

pub fn ev_to_string(e: &Ev) -> String {
    let who = if e.party == SENDER { "S" } else { "R" };
    format!("{} {:?}->{:?} n={} aux={}", who, e.op, e.out, e.n, e.aux)
}

pub fn summarize(w: &World, plan: &Plan) -> serde_json::Value {
    let msgs: Vec<serde_json::Value> = plan
        .msgs
        .iter()
        .map(|m| serde_json::json!({"value": m.val.short(), "default_in_place": m.use_default, "builder_ops": m.tweaks.len(), "frame_len": m.len, "padding_from": m.pad_start}))
        .collect();
    let attempts: Vec<serde_json::Value> = w
        .attempts
        .iter()
        .map(|a| serde_json::json!({"msg": a.msg_index, "frame_len": a.frame_len, "accepted": a.accepted, "result": format!("{:?}", a.result), "panicked": a.panicked, "pipe_calls": a.calls}))
        .collect();
    let recvs: Vec<serde_json::Value> = w
        .recvs
        .iter()
        .map(|r| {
            let o = match &r.outcome {
                RecvOutcome::Msg { val, size, retained, drop_panic, .. } => format!("Msg(size={}, retained={}, drop_panic={:?}) {}", size, retained, drop_panic, val.short()),
                other => format!("{:?}", other),
            };
            serde_json::json!({"outcome": o, "pipe_calls": r.calls, "window_after": format!("{:?}", r.window_after)})
        })
        .collect();
    let log: Vec<String> = w.log.iter().take(400).map(ev_to_string).collect();
    serde_json::json!({
        "type": plan.type_name, "align": plan.align, "max_msg_len_send": plan.max_send, "max_msg_len_recv": plan.max_recv, "send_buffer_capacity": plan.send_cap, "recv_buffer_capacity": plan.recv_cap,
        "knobs": w.knobs, "messages": msgs, "send_attempts": attempts, "recv_calls": recvs,
        "sink_len": w.pipe.sink.len(), "delivered": w.pipe.delivered_total, "events": log, "events_total": w.log.len(),
    })
}
