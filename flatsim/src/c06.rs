//! C06 – framing contract (stub; filled in below).
use crate::run::*;
use crate::zoo::ZooMsg;

pub fn zoo_roundtrip<M: ZooMsg + ?Sized>(_n: u32) -> Result<(), String> { Ok(()) }
pub fn expand(sc: &Scenario) -> Vec<Scenario> { vec![sc.clone()] }
pub fn run_c06<M: ZooMsg + ?Sized>(sc: &Scenario, keep_log: bool) -> RunOutput { run_delivery::<M>(sc, keep_log) }
