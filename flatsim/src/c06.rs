//! C06 – framing contract.  For a seeded value, *every* cut position of its wire image (the
//! sender crashed after k bytes) and *every* short extension (the beginning of the next message,
//! zeros, 0xFF, garbage) is one run: the contract is evaluated on `validate` itself and on what
//! the real blocking / async receiver does with exactly those bytes.

use crate::backend::guarded;
use crate::party::*;
use crate::run::*;
use crate::sched::{run_async, Task};
use crate::tape::{Decider, St};
use crate::val::{Gen, Val};
use crate::world::*;
use crate::zoo::ZooMsg;
use flatty::error::ErrorKind;
use flatty::AlignedBytes;
use std::sync::{Arc, Mutex};

/// Adapter self-test: generated values survive emplace -> deep read, and the read is not constant.
pub fn zoo_roundtrip<M: ZooMsg + ?Sized>(n: u32) -> Result<(), String> {
    let mut distinct: Vec<Val> = Vec::new();
    let mut buf = AlignedBytes::new(8192, M::ALIGN.max(16));
    for i in 0..n {
        let mut d = Decider::from_seed(0xA11CE + i as u64);
        let v = M::gen(&mut Gen::new(&mut d, St::Msgs, 6));
        buf.fill(if i % 2 == 0 { 0 } else { 0xFF });
        let _ = crate::zoo::take_invalid();
        let r = guarded(|| M::emplace_val(&mut buf, &v).map(|m| (m.read(), m.size())));
        let invalid = crate::zoo::take_invalid();
        match r {
            Ok(Ok((back, size))) => {
                // a freshly emplaced value that reads as invalid content, or claims more than its
                // buffer, counts as a value that changed on the way (same classification below)
                let back = if invalid.is_some() || size > buf.len() { Val::S(format!("<{} / size() {}>", invalid.unwrap_or("oversized"), size)) } else { back };
                if back != v {
                    // does the result depend on what the buffer held before?  (then it is the
                    // library, not the adapter: the same emplacement is right over zeros)
                    let mut clean = AlignedBytes::new(8192, M::ALIGN.max(16));
                    clean.fill(0);
                    let again = guarded(|| M::emplace_val(&mut clean, &v).map(|m| m.read()));
                    if matches!(&again, Ok(Ok(b2)) if b2 == &v) {
                        return Err(format!("STALE:emplace|emplacing {} over a buffer pre-filled with 0xFF reads back {}, over zeros it reads back correctly: the value depends on the previous contents of the (reused) buffer", v.short(), back.short()));
                    }
                    // the adapters round-trip on the pinned tree, so a value that changes on the way
                    // through emplace + read is a change in the library (what the sender holds is
                    // not what the application built)
                    return Err(format!("MISMATCH:emplace|emplacing {} reads back {}", v.short(), back.short()));
                }

                if !distinct.contains(&back) {
                    distinct.push(back);
                }
            }
            Ok(Err(e)) => return Err(format!("MISMATCH:emplace|emplacing the valid value {} into an 8 KiB buffer is refused: {:?}", v.short(), e)),
            Err(c) => return Err(format!("PANIC:{}|the library panicked while a valid value was emplaced / measured / read: {} ({})", c.site(), v.short(), c.describe())),
        }
    }
    if distinct.len() < 2 {
        return Err("deep read is constant".into());
    }
    Ok(())
}

pub struct Wire {
    pub frames: Vec<Vec<u8>>,
    pub vals: Vec<Val>,
}

/// Produce the wire image of the planned messages with the real blocking sender writing into
/// an unbounded pipe (single party, direct back-end).
pub fn wire_of<M: ZooMsg + ?Sized>(plan: &Arc<Plan>) -> Result<Wire, String> {
    if !(cfg!(miri) || std::env::var("FLATSIM_WIRE_DIRECT").is_ok()) {
        // a broken *sender* is C07/C08/C09's business; C06 and C10 judge validate and the receiver
        // and then take the frames from a direct emplacement instead
        if let Ok(w) = wire_of_sender::<M>(plan) {
            return Ok(w);
        }
    }
    {
        // Under Miri the sender's IoBuffer would hand uninitialised padding bytes to the harness
        // (AlignedBytes::new does not initialise); the harness compares and mutates frames, so
        // for the UB tier the frames are emplaced into an initialised scratch buffer instead.
        let cap = plan.send_buf_len;
        let mut frames = Vec::new();
        let mut vals = Vec::new();
        for mp in &plan.msgs {
            let mut buf = AlignedBytes::new(cap, M::ALIGN);
            buf.fill(0);
            let (size, _, val) = crate::party::build_in::<M>(&mut buf, mp).map_err(|e| format!("emplace failed: {:?}", e))?;
            frames.push(buf[..size].to_vec());
            vals.push(val);
        }
        Ok(Wire { frames, vals })
    }
}

fn wire_of_sender<M: ZooMsg + ?Sized>(plan: &Arc<Plan>) -> Result<Wire, String> {
    let knobs = Knobs::benign(1 << 30);
    let mut w = World::new(Decider::from_tape(Default::default()), knobs, false);
    w.prop = "C06";
    let sh: Shared = Arc::new(Mutex::new(w));
    sender_blocking::<M>(sh.clone(), plan.clone());
    let w = lock(&sh);
    if let Some(e) = &w.harness_error {
        return Err(e.clone());
    }
    if let Some(v) = &w.violation {
        return Err(format!("sender-only run: {}", v.detail));
    }
    let mut frames = Vec::new();
    let mut vals = Vec::new();
    let mut off = 0;
    for a in &w.attempts {
        if !matches!(a.result, Some(Ok(()))) || a.accepted != a.frame_len {
            return Err(format!("sender-only run: send #{} = {:?}", a.msg_index, a.result));
        }
        // what counts as "m" is the first size() bytes of the value the sender held
        if w.pipe.sink[off..off + a.frame.len()] != a.frame[..] {
            return Err("sender-only run: wire differs from frame".into());
        }
        frames.push(w.pipe.sink[off..off + a.accepted].to_vec());
        off += a.accepted;
        vals.push(a.val.clone());
    }
    Ok(Wire { frames, vals })
}

struct Setup {
    plan: Arc<Plan>,
    wire: Wire,
    p: usize,
}

fn setup<M: ZooMsg + ?Sized>(dec: &mut Decider, stats: &mut Stats) -> Result<Setup, String> {
    let p = dec.weighted(St::Cfg, &[3, 2, 1]);
    let mut plan = make_plan_opt::<M>(dec, stats, NSpec::Exactly(p as u32 + 2), 2, false);
    plan.retain_p = 0;
    plan.msgs.retain(|m| !m.unvalidated);
    let plan = Arc::new(plan);
    if let Some((val, _)) = plan.anomalies.first() {
        // A freshly emplaced value did not validate in the buffer it was emplaced into.  If its
        // first size() bytes validate, this is the extension clause of C06 failing on the
        // suffix "whatever the spare bytes of the buffer hold".
        let cap = plan.send_buf_len;
        let mut buf = AlignedBytes::new(cap, M::ALIGN);
        buf.fill(0xA5);
        if let Ok(Ok(size)) = guarded(|| M::emplace_val(&mut buf, val).map(|m| m.size())) {
            if size <= cap {
                let m = crate::val::Acopy::new(&buf[..size], M::ALIGN);
                let whole = guarded(|| M::validate(&buf));
                if matches!(guarded(|| M::validate(&m)), Ok(Ok(()))) {
                    if let Ok(Err(e)) = whole {
                        return Err(format!(
                            "VIOLATION:extension-validate|rejected|validate|the {}-byte image of {} validates, but followed by the spare bytes of its buffer (0xA5...) it is rejected: {:?}@{}",
                            size,
                            val.short(),
                            e.kind,
                            e.pos
                        ));
                    }
                }
            }
        }
    }
    if plan.msgs.len() != p + 2 {
        // no valid message could be built for this seed (the tree rejects freshly emplaced
        // values): nothing to enumerate here; counted as a probe, other seeds go on
        return Err("SKIP:plan produced fewer messages than requested".into());
    }
    let wire = wire_of::<M>(&plan)?;
    Ok(Setup { plan, wire, p })
}

pub const FAMILIES: u8 = 4;

fn suffix(fam: u8, follower: &[u8], len: usize, dec: &mut Decider) -> Vec<u8> {
    match fam {
        0 => follower.to_vec(),
        1 => vec![0u8; len],
        2 => vec![0xFFu8; len],
        _ => (0..len).map(|_| dec.below(St::Bytes, 256) as u8).collect(),
    }
}

/// One value seed -> all its cut and extension scenarios.
pub fn expand(sc: &Scenario) -> Vec<Scenario> {
    fn go<M: ZooMsg + ?Sized>(sc: &Scenario) -> Vec<Scenario> {
        let mut dec = sc.decider();
        let mut stats: Stats = [0; P::_COUNT as usize];
        let st = match guarded(|| setup::<M>(&mut dec, &mut stats)) {
            Ok(Ok(s)) => s,
            _ => return vec![sc.clone()],
        };
        let n = st.wire.frames[st.p].len();
        let fl = st.wire.frames[st.p + 1].len();
        let mut out = Vec::new();
        for k in 0..n {
            let mut s = sc.clone();
            s.aux.cut = Some(k);
            out.push(s);
        }
        let lim = 2 * M::ALIGN + 8;
        for fam in 0..FAMILIES {
            let top = if fam == 0 { fl.min(lim) } else { lim };
            for j in 0..=top {
                let mut s = sc.clone();
                s.aux.ext = Some((fam, j));
                out.push(s);
            }
            if fam == 0 && fl > top {
                let mut s = sc.clone();
                s.aux.ext = Some((0, fl));
                out.push(s);
            }
        }
        out
    }
    use crate::with_zoo_type;
    with_zoo_type!(sc.type_index, go, sc)
}

fn viol(oracle: &str, kind: &str, site: &str, detail: String) -> Option<Violation> {
    Some(Violation { property: "C06".into(), oracle: oracle.into(), kind: kind.into(), site: site.into(), detail })
}

/// The contract on `validate` itself.
fn check_validate<M: ZooMsg + ?Sized>(target: &[u8], val: &Val, pad_start: usize, cut: Option<usize>, ext: Option<&[u8]>, stats: &mut Stats) -> Option<Violation> {
    let n = target.len();
    if let Some(k) = cut {
        let bytes = crate::val::Acopy::new(&target[..k], M::ALIGN);
        let r = guarded(|| M::validate(&bytes).map(|_| unsafe { M::from_bytes_unchecked(&bytes) }.read()));
        match r {
            Err(c) => return viol("prefix-validate", "panic", &c.site(), format!("validate panicked on the first {} of {} bytes: {}", k, n, c.describe())),
            Ok(Err(e)) if e.kind == ErrorKind::InsufficientSize => {}
            Ok(Err(e)) => return viol("prefix-validate", "content-error", "validate", format!("validate on the first {} of {} bytes of a valid message reported {:?}@{} instead of InsufficientSize", k, n, e.kind, e.pos)),
            Ok(Ok(back)) => {
                if &back != val {
                    return viol("prefix-validate", "different-message", "validate", format!("the first {} of {} bytes validate as a different message: {} (sent {})", k, n, back.short(), val.short()));
                }
                if k < pad_start {
                    return viol("prefix-validate", "accepted-short", "validate", format!("the first {} of {} bytes were accepted although used bytes (up to {}) are missing", k, n, pad_start));
                }
                stats[P::prefix_accepted_padding_exception as usize] += 1;
            }
        }
    }
    if let Some(sfx) = ext {
        let mut all = target.to_vec();
        all.extend_from_slice(sfx);
        let bytes = crate::val::Acopy::new(&all, M::ALIGN);
        let r = guarded(|| {
            M::validate(&bytes).map(|_| {
                let m = unsafe { M::from_bytes_unchecked(&bytes) };
                (m.read(), m.size())
            })
        });
        match r {
            Err(c) => return viol("extension-validate", "panic", &c.site(), format!("validate/read panicked on message + {} extra bytes: {}", sfx.len(), c.describe())),
            Ok(Err(e)) => return viol("extension-validate", "rejected", "validate", format!("a valid {}-byte message followed by {} further bytes was rejected: {:?}@{}", n, sfx.len(), e.kind, e.pos)),
            Ok(Ok((back, size))) => {
                if &back != val {
                    return viol("extension-validate", "different-message", "validate", format!("message + {} extra bytes reads back {} (sent {})", sfx.len(), back.short(), val.short()));
                }
                if size != n {
                    return viol("extension-validate", "size", "validate", format!("message + {} extra bytes reports size() {} instead of {}", sfx.len(), size, n));
                }
            }
        }
    }
    None
}

pub fn run_c06<M: ZooMsg + ?Sized>(sc: &Scenario, keep_log: bool) -> RunOutput {
    let mut dec = sc.decider();
    let mut stats: Stats = [0; P::_COUNT as usize];
    let st = match guarded(|| setup::<M>(&mut dec, &mut stats)) {
        Ok(Ok(s)) => s,
        Ok(Err(e)) => {
            if let Some(rest) = e.strip_prefix("VIOLATION:") {
                let parts: Vec<&str> = rest.splitn(4, '|').collect();
                if parts.len() == 4 {
                    return trivial_output(dec, stats, None, viol(parts[0], parts[1], parts[2], parts[3].to_string()));
                }
            }
            if e.starts_with("SKIP:") {
                let mut stats = stats;
                stats[P::producer_left_invalid_message as usize] += 1;
                return trivial_output(dec, stats, None, None);
            }
            return trivial_output(dec, stats, Some(e), None);
        }
        Err(c) => return trivial_output(dec, stats, None, viol("setup", "panic", &c.site(), format!("building / sending the messages panicked: {}", c.describe()))),
    };
    let p = st.p;
    let target = st.wire.frames[p].clone();
    let tval = st.wire.vals[p].clone();
    let follower = st.wire.frames[p + 1].clone();
    let fval = st.wire.vals[p + 1].clone();
    let pad_start = st.plan.msgs[p].pad_start;
    let n = target.len();
    let (cut, ext) = match (sc.aux.cut, sc.aux.ext) {
        (Some(k), _) => (Some(k.min(n.saturating_sub(1))), None),
        (None, Some((fam, j))) => (None, Some((fam % FAMILIES, j))),
        // a bare seed (no enumeration index): cut in the middle
        (None, None) => (Some(n / 2), None),
    };
    let sfx: Option<Vec<u8>> = ext.map(|(fam, j)| {
        let lim = 2 * M::ALIGN + 8;
        let s = suffix(fam, &follower, lim, &mut dec);
        s[..j.min(s.len())].to_vec()
    });
    // 1. the contract on validate
    let v1 = check_validate::<M>(&target, &tval, pad_start, cut, sfx.as_deref(), &mut stats);
    // 2. what the real receiver does with exactly these bytes
    let mut stream: Vec<u8> = Vec::new();
    let mut bounds = Vec::new();
    let mut pads = Vec::new();
    for i in 0..p {
        bounds.push((stream.len(), stream.len() + st.wire.frames[i].len()));
        pads.push(stream.len() + st.plan.msgs[i].pad_start);
        stream.extend_from_slice(&st.wire.frames[i]);
    }
    let front_len = stream.len();
    bounds.push((front_len, front_len + n));
    pads.push(front_len + pad_start);
    match (cut, &sfx) {
        (Some(k), _) => stream.extend_from_slice(&target[..k]),
        (None, Some(s)) => {
            stream.extend_from_slice(&target);
            stream.extend_from_slice(s);
        }
        _ => {}
    }
    let is_async = sc.world == WorldKind::Async;
    let w = run_receiver_only::<M>(sc, dec, stats, st.plan.clone(), stream.clone(), bounds, pads, "C06", keep_log);
    let mut w = w;
    if w.violation.is_none() && w.harness_error.is_none() {
        w.violation = v1.or_else(|| check_receiver(&w, &st, p, &tval, &fval, n, pad_start, cut, ext, follower.len()));
    }
    let _ = is_async;
    let nontrivial = !stream.is_empty();
    output_of(w, &st.plan, nontrivial, keep_log)
}

fn trivial_output(dec: Decider, stats: Stats, harness_error: Option<String>, violation: Option<Violation>) -> RunOutput {
    RunOutput {
        violation,
        harness_error,
        tape: dec.rec.clone(),
        full_hash: 0,
        shape_hash: 0,
        stats,
        ticks: 0,
        state_hashes: vec![],
        nontrivial: false,
        summary: None,
        calls: (0, 0, 0),
        stream_len: 0,
    }
}

#[allow(clippy::too_many_arguments)]
fn check_receiver(w: &World, st: &Setup, p: usize, tval: &Val, fval: &Val, n: usize, pad_start: usize, cut: Option<usize>, ext: Option<(u8, usize)>, follower_len: usize) -> Option<Violation> {
    // no panic, no hang, only legal outcomes
    for (i, r) in w.recvs.iter().enumerate() {
        match &r.outcome {
            RecvOutcome::Panic(d) => {
                let site = d.rsplit_once(" @ ").map(|x| x.1.to_string()).unwrap_or_default();
                return viol("receiver", "panic", &site, format!("recv #{} panicked: {}", i, d));
            }
            RecvOutcome::Msg { drop_panic: Some(d), .. } => {
                let site = d.rsplit_once(" @ ").map(|x| x.1.to_string()).unwrap_or_default();
                return viol("receiver", "panic", &site, format!("dropping the guard of recv #{} panicked: {}", i, d));
            }
            RecvOutcome::InFlight => return viol("receiver", "hang", "recv", format!("recv #{} never returned", i)),
            _ => {}
        }
    }
    if let Some(x) = crate::oracle::receiver_conservation(w, "C06") {
        return Some(x);
    }
    let mut outs: Vec<&RecvOutcome> = w.recvs.iter().map(|r| &r.outcome).collect();
    // a harness policy asks once more after the final Closed in some runs: the end is stable
    if outs.len() >= 2 && matches!(outs[outs.len() - 1], RecvOutcome::Closed) && matches!(outs[outs.len() - 2], RecvOutcome::Closed) {
        outs.pop();
    }
    // the whole messages in front are delivered first
    for i in 0..p {
        match outs.get(i) {
            Some(RecvOutcome::Msg { val, size, .. }) if val == &st.wire.vals[i] && *size == st.wire.frames[i].len() => {}
            other => {
                let o: String = format!("{:?}", other).chars().take(140).collect();
                return viol("receiver-front", "mismatch", "recv", format!("whole message #{} in front of the cut was not delivered intact: {}", i, o));
            }
        }
    }
    let rest = &outs[p.min(outs.len())..];
    let describe = |o: &[&RecvOutcome]| -> String { o.iter().map(|x| format!("{:?}", x).chars().take(90).collect::<String>()).collect::<Vec<_>>().join(" ; ") };
    if let Some(k) = cut {
        // prefix: Closed, or the same message when only trailing padding is missing
        match rest {
            [RecvOutcome::Closed] => None,
            [RecvOutcome::Msg { val, size, occupied, .. }, RecvOutcome::Closed] => {
                if val != tval {
                    return viol("receiver-prefix", "different-message", "recv", format!("after {} of {} bytes the receiver returned {} (sent {})", k, n, val.short(), tval.short()));
                }
                if k < pad_start {
                    return viol("receiver-prefix", "accepted-short", "recv", format!("after {} of {} bytes (used bytes end at {}) the receiver returned the message", k, n, pad_start));
                }
                if size > occupied {
                    return viol("receiver-prefix", "over-consume", "recv", format!("guard size() {} exceeds the {} bytes received", size, occupied));
                }
                None
            }
            other => {
                let kind = if other.iter().any(|o| matches!(o, RecvOutcome::Parse(_))) { "content-error" } else { "bad-outcome" };
                viol("receiver-prefix", kind, "recv", format!("stream ends after {} of {} bytes of a valid message; receiver produced: {}", k, n, describe(other)))
            }
        }
    } else if let Some((fam, j)) = ext {
        // extension: the same message, same size; the next recv starts right behind it
        match rest.first() {
            Some(RecvOutcome::Msg { val, size, .. }) => {
                if val != tval {
                    return viol("receiver-extension", "different-message", "recv", format!("message followed by {} bytes (family {}) was received as {} (sent {})", j, fam, val.short(), tval.short()));
                }
                if *size != n {
                    return viol("receiver-extension", "size", "recv", format!("message followed by {} bytes (family {}) was consumed as {} bytes instead of {}", j, fam, size, n));
                }
            }
            _ => {
                return viol("receiver-extension", "not-delivered", "recv", format!("message followed by {} bytes (family {}): receiver produced {}", j, fam, describe(rest)));
            }
        }
        let tail = &rest[1..];
        if fam == 0 {
            // the beginning of the next valid message
            if j >= follower_len {
                match tail {
                    [RecvOutcome::Msg { val, size, .. }, RecvOutcome::Closed] if val == fval && *size == follower_len => None,
                    other => viol("receiver-extension", "follower", "recv", format!("the complete next message was not delivered from byte {}: {}", n, describe(other))),
                }
            } else {
                match tail {
                    [RecvOutcome::Closed] => None,
                    [RecvOutcome::Msg { val, .. }, RecvOutcome::Closed] if val == fval && j >= st.plan.msgs[p + 1].pad_start => None,
                    other => {
                        let kind = if other.iter().any(|o| matches!(o, RecvOutcome::Parse(_))) { "content-error" } else { "bad-outcome" };
                        viol("receiver-extension", kind, "recv", format!("{} of {} bytes of the next valid message: receiver produced {}", j, follower_len, describe(other)))
                    }
                }
            }
        } else {
            None
        }
    } else {
        None
    }
}

/// Run only the receiver over a pre-loaded stream (the writer has already gone away).
#[allow(clippy::too_many_arguments)]
pub fn run_receiver_only<M: ZooMsg + ?Sized>(
    sc: &Scenario,
    mut dec: Decider,
    stats: Stats,
    plan: Arc<Plan>,
    stream: Vec<u8>,
    bounds: Vec<(usize, usize)>,
    pads: Vec<usize>,
    prop: &'static str,
    keep_log: bool,
) -> World {
    let is_async = sc.world == WorldKind::Async;
    let mut knobs = draw_knobs(if is_async { "C08" } else { "C07" }, sc.world, &mut dec, &plan);
    knobs.pipe_cap = stream.len() + 1;
    if prop == "C10" {
        // every prefix length should be validated often: over-weight 1-byte reads
        if dec.chance(St::Cfg, 1, 3) {
            knobs.rchunk_mode = 1;
        }
    }
    if plan.bmode == 2 && knobs.rchunk_mode == 1 {
        // 64 KiB messages: every read re-validates the whole buffer, byte-at-a-time delivery
        // would be quadratic (seconds per run)
        knobs.rchunk_mode = 2;
    }
    let mut world = World::new(dec, knobs, keep_log);
    world.stats = stats;
    world.prop = prop;
    world.align = M::ALIGN;
    world.frame_bounds = bounds;
    world.frame_pad_start = pads;
    world.pipe.sink = stream.clone();
    world.pipe.accepted_total = stream.len();
    world.pipe.buf = stream.into();
    world.pipe.writer_closed = true;
    if prop == "C10" && is_async && world.dec.chance(St::Cfg, 1, 4) {
        // the hostile peer stays connected and says nothing more
        world.pipe.writer_closed = false;
        world.silent_peer = true;
    }
    let sh: Shared = Arc::new(Mutex::new(world));
    if is_async {
        let t: Task = Box::pin(receiver_async::<M>(sh.clone(), plan.clone()));
        let caught = run_async(&sh, vec![None, Some(t)]);
        fold_async_panics(&sh, caught);
    } else {
        receiver_blocking::<M>(sh.clone(), plan.clone());
    }
    match Arc::try_unwrap(sh) {
        Ok(m) => m.into_inner().unwrap_or_else(|p| p.into_inner()),
        Err(_) => panic!("world still shared after run"),
    }
}
