//! Batch driver: seeded search over many simulated runs on all cores, violation handling
//! (minimise, replay-verify, report), evidence writer, replay and self-tests.

use crate::run::*;
use crate::shrink::shrink;
use crate::tape::mix;
use crate::world::*;
use crate::zoo::{type_name, N_HAND, N_TYPES};
use crate::{c06, c10, with_zoo_type};
use serde::Deserialize;
use std::collections::HashSet;
use std::sync::atomic::{AtomicBool, AtomicU64, Ordering};
use std::sync::{Arc, Mutex};
use std::time::Instant;

pub const DEFAULT_SEED: u64 = 20260926;
/// per-worker cap on the distinct-hash sets (memory); counts are lower bounds beyond it
const SET_CAP: usize = 1_500_000;

/// A library panic while a *valid* value is emplaced, measured or deep-read through the public
/// API is a violation of every claimed property's "never panics" / delivery clause (send() calls
/// size(); the consumer reads the guard) – not a harness error.
fn selftest_scenario(sc: &Scenario) -> RunOutput {
    let r = {
        use crate::c06::zoo_roundtrip;
        with_zoo_type!(sc.type_index, zoo_roundtrip, 40)
    };
    let mut out = RunOutput {
        violation: None,
        harness_error: None,
        tape: Default::default(),
        full_hash: 0,
        shape_hash: 0,
        stats: [0; P::_COUNT as usize],
        ticks: 0,
        state_hashes: vec![],
        nontrivial: true,
        summary: Some(serde_json::json!({"selftest": type_name(sc.type_index)})),
        calls: (0, 0, 0),
        stream_len: 0,
    };
    match r {
        Ok(()) => {}
        Err(e) => match e.strip_prefix("PANIC:") {
            Some(rest) => {
                let (site, detail) = rest.split_once('|').unwrap_or(("", rest));
                out.violation = Some(Violation { property: sc.property.clone(), oracle: "valid-value-usable".into(), kind: "panic".into(), site: site.into(), detail: format!("{}: {}", type_name(sc.type_index), detail) });
            }
            None => match e.strip_prefix("STALE:") {
                Some(rest) => {
                    let (site, detail) = rest.split_once('|').unwrap_or(("", rest));
                    out.violation = Some(Violation { property: sc.property.clone(), oracle: "0-requested-value".into(), kind: "stale-buffer".into(), site: site.into(), detail: format!("{}: {}", type_name(sc.type_index), detail) });
                }
                None => match e.strip_prefix("MISMATCH:") {
                    Some(rest) => {
                        let (site, detail) = rest.split_once('|').unwrap_or(("", rest));
                        out.violation = Some(Violation { property: sc.property.clone(), oracle: "0-requested-value".into(), kind: "emplace-mismatch".into(), site: site.into(), detail: format!("{}: {}", type_name(sc.type_index), detail) });
                    }
                    None => out.harness_error = Some(format!("{}: {}", type_name(sc.type_index), e)),
                },
            },
        },
    }
    out
}

pub fn run_scenario(sc: &Scenario, keep_log: bool) -> RunOutput {
    if sc.aux.selftest {
        return selftest_scenario(sc);
    }
    // a fatal signal during this run is reported as a violation with this scenario as replay
    static VDIR: std::sync::OnceLock<std::path::PathBuf> = std::sync::OnceLock::new();
    let vdir = VDIR.get_or_init(|| {
        let d = verif_dir();
        crate::crash::install(&d);
        d
    });
    let _in_run = crate::crash::enter(sc, vdir);
    match sc.property.as_str() {
        "C06" => {
            use c06::run_c06;
            with_zoo_type!(sc.type_index, run_c06, sc, keep_log)
        }
        "C10" => {
            use c10::run_c10;
            with_zoo_type!(sc.type_index, run_c10, sc, keep_log)
        }
        _ => with_zoo_type!(sc.type_index, run_delivery, sc, keep_log),
    }
}

fn verif_dir() -> std::path::PathBuf {
    if let Ok(d) = std::env::var("FLATSIM_VERIF_DIR") {
        return d.into();
    }
    let cwd = std::env::current_dir().unwrap_or_else(|_| ".".into());
    if cwd.join("MANIFEST.json").exists() || cwd.join("properties.jsonl").exists() {
        cwd
    } else {
        "/verif".into()
    }
}

// ---------------------------------------------------------------------------------------------
// known findings

#[derive(Clone, Debug, Deserialize)]
pub struct Finding {
    pub status: String,
    pub property: String,
    pub signature: String,
    #[serde(default)]
    pub types: Vec<String>,
    #[serde(default)]
    pub what: String,
}

#[derive(Clone, Debug, Default, Deserialize)]
pub struct Findings {
    #[serde(default)]
    pub findings: Vec<Finding>,
}

fn load_findings() -> Findings {
    let p = verif_dir().join("known_findings.json");
    match std::fs::read_to_string(&p) {
        Ok(s) => serde_json::from_str(&s).unwrap_or_else(|e| {
            eprintln!("harness error: cannot parse {}: {}", p.display(), e);
            std::process::exit(2)
        }),
        Err(_) => Findings::default(),
    }
}

fn known_match<'a>(f: &'a Findings, prop: &str, sig: &str, type_name: &str) -> Option<&'a Finding> {
    f.findings
        .iter()
        .find(|x| x.status == "known" && x.property == prop && x.signature == sig && (x.types.is_empty() || x.types.iter().any(|t| t == type_name)))
}

// ---------------------------------------------------------------------------------------------
// job lists

#[derive(Clone, Copy)]
struct Tier {
    /// seeded runs per (world, type)
    per_type: u64,
}

fn tier_of(prop: &str, tier: &str, scale: f64) -> Tier {
    // seeded jobs per hand-written type and world; the generated families get the same total
    let base: u64 = match (prop, tier) {
        ("C06", "quick") => 120,
        ("C06", _) => 8_000,
        ("C07", "quick") => 50_000,
        ("C07", _) => 3_000_000,
        ("C08", "quick") => 50_000,
        ("C08", _) => 3_000_000,
        ("C09", "quick") => 25_000,
        ("C09", _) => 1_500_000,
        ("C10", "quick") => 30_000,
        ("C10", _) => 2_000_000,
        _ => 1000,
    };
    Tier { per_type: ((base as f64 * scale) as u64).max(1) }
}

fn worlds_of(prop: &str) -> Vec<WorldKind> {
    match prop {
        "C07" => vec![WorldKind::Blocking],
        "C08" => vec![WorldKind::Async],
        _ => vec![WorldKind::Blocking, WorldKind::Async],
    }
}

fn base_scenario(prop: &str, world: WorldKind, backend: &str, ty: usize, seed: u64) -> Scenario {
    Scenario {
        version: 1,
        property: prop.to_string(),
        world,
        backend: backend.to_string(),
        type_index: ty,
        type_name: type_name(ty).to_string(),
        seed,
        tape: None,
        aux: Aux::default(),
        expect_signature: None,
        expect_log_hash: None,
        summary: None,
    }
}

/// Half of the jobs go to the 24 hand-written types (special shapes: FlexVec, portable, nested,
/// arrays ...), half to the 128 generated family instantiations.
pub fn job_type(idx: u64) -> usize {
    // debugging aid: FLATSIM_ONLY_TYPE=<substring of a type name> maps every job to that type
    if let Ok(pat) = std::env::var("FLATSIM_ONLY_TYPE") {
        if let Some(i) = (0..N_TYPES).find(|&i| type_name(i).contains(&pat)) {
            return i;
        }
    }
    let slot = idx % (2 * N_HAND as u64);
    if slot < N_HAND as u64 {
        slot as usize
    } else {
        N_HAND + ((idx / (2 * N_HAND as u64)) * N_HAND as u64 + (slot - N_HAND as u64)) as usize % crate::zoo_gen_list::N_GEN
    }
}

/// Job `idx` of the seeded layer -> the scenarios it consists of.
fn seeded_job(prop: &str, backend: &str, check_seed: u64, idx: u64) -> Vec<Scenario> {
    let worlds = worlds_of(prop);
    let nw = worlds.len() as u64;
    let ty = job_type(idx);
    let world = worlds[((idx / (2 * N_HAND as u64)) % nw) as usize];
    let run_seed = mix(mix(check_seed, prop.as_bytes().iter().fold(0u64, |a, b| a * 131 + *b as u64)), idx);
    let sc = base_scenario(prop, world, backend, ty, run_seed);
    match prop {
        "C06" => c06::expand(&sc),
        _ => vec![sc],
    }
}

// ---------------------------------------------------------------------------------------------
// aggregation

#[derive(Default)]
struct Agg {
    evaluations: u64,
    nontrivial: u64,
    distinct: HashSet<u64>,
    shapes: HashSet<u64>,
    states: HashSet<u64>,
    stats: Vec<u64>,
    ticks: u64,
    per_type: Vec<u64>,
    per_world: [u64; 2],
    harness_errors: Vec<String>,
    samples: Vec<serde_json::Value>,
}

impl Agg {
    fn new() -> Self {
        Agg { stats: vec![0; P::_COUNT as usize], per_type: vec![0; N_TYPES], ..Default::default() }
    }
    fn add(&mut self, sc: &Scenario, out: &RunOutput) {
        self.evaluations += 1;
        self.per_type[sc.type_index] += 1;
        self.per_world[if sc.world == WorldKind::Blocking { 0 } else { 1 }] += 1;
        if out.nontrivial {
            self.nontrivial += 1;
            if self.distinct.len() < SET_CAP {
                self.distinct.insert(mix(out.full_hash, sc.type_index as u64));
            }
        }
        if self.shapes.len() < SET_CAP {
            self.shapes.insert(mix(out.shape_hash, sc.type_index as u64));
        }
        if self.states.len() < SET_CAP {
            for h in &out.state_hashes {
                self.states.insert(*h);
            }
        }
        for (a, b) in self.stats.iter_mut().zip(out.stats.iter()) {
            *a += *b;
        }
        self.ticks += out.ticks;
        if let Some(e) = &out.harness_error {
            if self.harness_errors.len() < 5 {
                self.harness_errors.push(format!("{} type={} seed={}: {}", sc.property, sc.type_name, sc.seed, e));
            }
        }
    }
    fn merge(&mut self, o: Agg) {
        self.evaluations += o.evaluations;
        self.nontrivial += o.nontrivial;
        self.distinct.extend(o.distinct);
        self.shapes.extend(o.shapes);
        self.states.extend(o.states);
        for (a, b) in self.stats.iter_mut().zip(o.stats.iter()) {
            *a += *b;
        }
        self.ticks += o.ticks;
        for (a, b) in self.per_type.iter_mut().zip(o.per_type.iter()) {
            *a += *b;
        }
        self.per_world[0] += o.per_world[0];
        self.per_world[1] += o.per_world[1];
        self.harness_errors.extend(o.harness_errors);
        self.samples.extend(o.samples);
    }
}

struct Found {
    job: u64,
    sc: Scenario,
    v: Violation,
}

// ---------------------------------------------------------------------------------------------
// the check

pub fn run_check(prop: &str, tier: &str, seed: u64, workers: usize, backend: &str, scale: f64) -> i32 {
    if !["C06", "C07", "C08", "C09", "C10"].contains(&prop) {
        eprintln!("harness error: property {} is not claimed by flatsim", prop);
        return 2;
    }
    let t0 = Instant::now();
    println!("flatsim: property={} tier={} VERIF_SEED={} workers={} backend={}", prop, tier, seed, workers, backend);
    // the adapters are trusted; test them first (adapter problems: exit 2, never 1; a library
    // panic on a valid value is a violation and is reported through the normal path below)
    let mut selftest_found: Vec<Found> = Vec::new();
    for ty in 0..N_TYPES {
        let mut sc = base_scenario(prop, worlds_of(prop)[0], backend, ty, 0);
        sc.aux.selftest = true;
        let out = run_scenario(&sc, false);
        if let Some(e) = out.harness_error {
            eprintln!("harness error: zoo self-test: {}", e);
            return 2;
        }
        if let Some(v) = out.violation {
            selftest_found.push(Found { job: 0, sc, v });
            break;
        }
    }
    let findings = Arc::new(load_findings());
    let vdir = verif_dir();
    // regression corpus: minimised scenarios of repaired defects are replayed first
    let mut regress_runs = 0u64;
    let mut found: Vec<Found> = selftest_found;
    if let Ok(rd) = std::fs::read_dir(vdir.join("regress")) {
        let mut files: Vec<_> = rd.filter_map(|e| e.ok()).map(|e| e.path()).filter(|p| p.extension().map(|x| x == "json").unwrap_or(false)).collect();
        files.sort();
        for f in files {
            let name = f.file_name().unwrap().to_string_lossy().to_string();
            if !name.starts_with(prop) {
                continue;
            }
            let sc: Scenario = match std::fs::read_to_string(&f).ok().and_then(|s| serde_json::from_str(&s).ok()) {
                Some(s) => s,
                None => {
                    eprintln!("harness error: unreadable regression scenario {}", f.display());
                    return 2;
                }
            };
            let out = run_scenario(&sc, false);
            regress_runs += 1;
            if let Some(v) = out.violation {
                if known_match(&findings, prop, &v.signature(), &sc.type_name).is_none() {
                    println!("regression scenario {} fails again: {}", name, v.detail);
                    let mut sc2 = sc.clone();
                    sc2.tape = Some(out.tape.clone());
                    found.push(Found { job: 0, sc: sc2, v });
                }
            }
        }
    }
    let tr = tier_of(prop, tier, scale);
    let n_seeded = tr.per_type * 2 * N_HAND as u64 * worlds_of(prop).len() as u64;
    // systematic layers are appended after the seeded jobs
    let sys: Vec<Scenario> = match prop {
        "C09" => crate::c10::systematic_c09(backend, seed, tier),
        "C10" => crate::c10::systematic_c10(backend, seed, tier),
        "C07" | "C08" => crate::c10::systematic_splits(prop, backend, seed, tier),
        _ => vec![],
    };
    let sys = Arc::new(sys);
    let total_jobs = n_seeded + sys.len() as u64;
    let next = Arc::new(AtomicU64::new(0));
    let stop = Arc::new(AtomicBool::new(!found.is_empty()));
    let found_sh: Arc<Mutex<Vec<Found>>> = Arc::new(Mutex::new(Vec::new()));
    let known_seen: Arc<Mutex<Vec<(String, String, u64)>>> = Arc::new(Mutex::new(Vec::new()));
    let survey = std::env::var("FLATSIM_SURVEY").is_ok();
    let survey_seen: Arc<Mutex<Vec<(String, String, u64)>>> = Arc::new(Mutex::new(Vec::new()));
    let inflight: Vec<Arc<Mutex<Option<(Instant, Scenario)>>>> = (0..workers).map(|_| Arc::new(Mutex::new(None))).collect();
    let done_flag = Arc::new(AtomicBool::new(false));
    // wall-clock watchdog: the only non-logical element; fires only on a real hang
    {
        let inflight = inflight.clone();
        let done_flag = done_flag.clone();
        let prop = prop.to_string();
        let vdir = vdir.clone();
        std::thread::spawn(move || loop {
            std::thread::sleep(std::time::Duration::from_millis(500));
            if done_flag.load(Ordering::SeqCst) {
                return;
            }
            for slot in &inflight {
                let g = slot.lock().unwrap();
                if let Some((t, sc)) = &*g {
                    if t.elapsed().as_secs() >= 300 {
                        let dir = vdir.join("replays");
                        let _ = std::fs::create_dir_all(&dir);
                        let path = dir.join(format!("{}-hang-{}.json", prop, sc.seed));
                        let mut sc = sc.clone();
                        sc.expect_signature = Some(format!("{}|wall-clock|hang:wall-clock|run", prop));
                        let _ = std::fs::write(&path, serde_json::to_string_pretty(&sc).unwrap());
                        println!("violation found: [{}|wall-clock|hang:wall-clock|run] run did not finish within 300 s of wall-clock time (type {} world {:?} seed {})", prop, sc.type_name, sc.world, sc.seed);
                        println!("VIOLATION property={} replay={}", prop, path.display());
                        std::process::exit(1);
                    }
                }
            }
        });
    }
    let mut handles = Vec::new();
    for wid in 0..workers {
        let next = next.clone();
        let stop = stop.clone();
        let found_sh = found_sh.clone();
        let known_seen = known_seen.clone();
        let survey_seen = survey_seen.clone();
        let findings = findings.clone();
        let sys = sys.clone();
        let slot = inflight[wid].clone();
        let prop = prop.to_string();
        let backend = backend.to_string();
        let h = std::thread::Builder::new()
            .stack_size(8 << 20)
            .spawn(move || {
                let mut agg = Agg::new();
                loop {
                    if stop.load(Ordering::Relaxed) {
                        break;
                    }
                    let idx = next.fetch_add(1, Ordering::Relaxed);
                    if idx >= total_jobs {
                        break;
                    }
                    let scs = if idx < n_seeded { seeded_job(&prop, &backend, seed, idx) } else { vec![sys[(idx - n_seeded) as usize].clone()] };
                    for sc in scs {
                        *slot.lock().unwrap() = Some((Instant::now(), sc.clone()));
                        let want_sample = agg.samples.len() < 1 && idx < 64;
                        let out = run_scenario(&sc, want_sample);
                        *slot.lock().unwrap() = None;
                        agg.add(&sc, &out);
                        if want_sample && out.nontrivial {
                            if let Some(s) = &out.summary {
                                agg.samples.push(serde_json::json!({"scenario": {"property": sc.property, "world": sc.world, "type": sc.type_name, "seed": sc.seed, "aux": sc.aux}, "run": s}));
                            }
                        }
                        if let Some(v) = out.violation {
                            let sig = v.signature();
                            if let Some(k) = known_match(&findings, &prop, &sig, &sc.type_name) {
                                let mut ks = known_seen.lock().unwrap();
                                match ks.iter_mut().find(|x| x.0 == sig) {
                                    Some(e) => e.2 += 1,
                                    None => ks.push((sig, k.what.clone(), 1)),
                                }
                            } else if survey {
                                let mut ks = survey_seen.lock().unwrap();
                                let key = format!("{} :: {}", sig, sc.type_name);
                                match ks.iter_mut().find(|x| x.0 == key) {
                                    Some(e) => e.2 += 1,
                                    None => ks.push((key, format!("world={:?} seed={} :: {}", sc.world, sc.seed, v.detail), 1)),
                                }
                            } else {
                                let mut sc2 = sc.clone();
                                sc2.tape = Some(out.tape.clone());
                                found_sh.lock().unwrap().push(Found { job: idx, sc: sc2, v });
                                stop.store(true, Ordering::SeqCst);
                                break;
                            }
                        }
                    }
                }
                agg
            })
            .unwrap();
        handles.push(h);
    }
    let mut agg = Agg::new();
    for h in handles {
        match h.join() {
            Ok(a) => agg.merge(a),
            Err(_) => {
                eprintln!("harness error: worker thread panicked");
                return 2;
            }
        }
    }
    done_flag.store(true, Ordering::SeqCst);
    found.extend(std::mem::take(&mut *found_sh.lock().unwrap()));
    found.sort_by_key(|f| f.job);
    let wall = t0.elapsed().as_secs_f64();
    for (sig, what, n) in known_seen.lock().unwrap().iter() {
        println!("KNOWN-FINDING: property={} {} [signature {}; hit by {} runs]", prop, what, sig, n);
    }
    {
        let mut ss = survey_seen.lock().unwrap();
        ss.sort();
        for (key, ex, n) in ss.iter() {
            println!("SURVEY {:>8} x {}\n           e.g. {}", n, key, ex);
        }
    }
    if !agg.harness_errors.is_empty() {
        for e in &agg.harness_errors {
            eprintln!("harness error: {}", e);
        }
        return 2;
    }
    if agg.nontrivial == 0 && found.is_empty() {
        eprintln!("harness error: not a single non-trivial run (no message could be built / no byte was delivered)");
        return 2;
    }
    // cross-check of the two blocking back-ends (thorough only): the same seeds on real OS threads
    // parked on a baton must give the same event logs as on coroutines
    let mut crosscheck = 0u64;
    if tier == "thorough" && found.is_empty() && (prop == "C07" || prop == "C09") {
        let n_jobs = 4000u64;
        let next = Arc::new(AtomicU64::new(0));
        let bad = Arc::new(Mutex::new(Vec::<String>::new()));
        let done = Arc::new(AtomicU64::new(0));
        let mut hs = Vec::new();
        for _ in 0..workers {
            let (next, bad, done) = (next.clone(), bad.clone(), done.clone());
            let prop = prop.to_string();
            hs.push(std::thread::spawn(move || loop {
                let idx = next.fetch_add(1, Ordering::Relaxed);
                if idx >= n_jobs {
                    break;
                }
                for sc in seeded_job(&prop, "coro", seed ^ 0x7487, idx) {
                    if sc.world != WorldKind::Blocking {
                        continue;
                    }
                    let a = run_scenario(&sc, false);
                    let mut sc2 = sc.clone();
                    sc2.backend = "threads".into();
                    let b = run_scenario(&sc2, false);
                    done.fetch_add(1, Ordering::Relaxed);
                    if a.full_hash != b.full_hash || a.violation.map(|v| v.signature()) != b.violation.map(|v| v.signature()) {
                        bad.lock().unwrap().push(format!("type={} seed={}", sc.type_name, sc.seed));
                    }
                }
            }));
        }
        for h in hs {
            let _ = h.join();
        }
        crosscheck = done.load(Ordering::Relaxed);
        let bad = bad.lock().unwrap();
        if !bad.is_empty() {
            eprintln!("harness error: coroutine and thread back-ends disagree on {} runs, e.g. {}", bad.len(), bad[0]);
            return 2;
        }
        println!("back-end cross-check: {} blocking runs identical on coroutines and on baton-passed OS threads", crosscheck);
    }
    std::env::set_var("FLATSIM_CROSSCHECK_RUNS", crosscheck.to_string());
    let mut violations = 0;
    let mut exit_code = 0;
    if let Some(f) = found.first() {
        violations = found.len() as i64;
        println!("violation found in job {} ({} world={:?} type={}): [{}] {}", f.job, f.sc.property, f.sc.world, f.sc.type_name, f.v.signature(), f.v.detail);
        let path = report_violation(prop, f, &vdir);
        println!("VIOLATION property={} replay={}", prop, path);
        exit_code = 1;
    }
    write_evidence(prop, tier, seed, &agg, wall, violations, regress_runs, sys.len() as u64, &vdir);
    println!(
        "flatsim: {} runs ({} non-trivial, {} distinct event logs, {} distinct interleaving shapes, {} distinct states), {} simulated ticks, {:.1} s, {:.0} runs/hour",
        agg.evaluations,
        agg.nontrivial,
        agg.distinct.len(),
        agg.shapes.len(),
        agg.states.len(),
        agg.ticks,
        wall,
        agg.evaluations as f64 / wall * 3600.0
    );
    exit_code
}

/// Minimise, verify that the replay reproduces exactly (twice), write the replay file.
fn report_violation(prop: &str, f: &Found, vdir: &std::path::Path) -> String {
    let dir = vdir.join("replays");
    let _ = std::fs::create_dir_all(&dir);
    let sig = f.v.signature();
    let orig_path = dir.join(format!("{}-{}-{}.orig.json", prop, f.sc.seed, f.sc.type_index));
    let mut orig = f.sc.clone();
    orig.expect_signature = Some(sig.clone());
    let _ = std::fs::write(&orig_path, serde_json::to_string_pretty(&orig).unwrap());
    // the tape-driven run must already reproduce the PRNG-driven one
    let check = run_scenario(&f.sc, false);
    let base = if check.violation.as_ref().map(|v| v.signature()) == Some(sig.clone()) {
        f.sc.clone()
    } else {
        println!("note: tape replay of the failing run gives {:?}; reporting the seed-driven scenario unminimised", check.violation.map(|v| v.signature()));
        let mut s = f.sc.clone();
        s.tape = None;
        s
    };
    let mut min = if base.tape.is_some() { shrink(&base, &sig, 2500) } else { base };
    let a = run_scenario(&min, true);
    let b = run_scenario(&min, false);
    let ok = a.violation.as_ref().map(|v| v.signature()) == Some(sig.clone()) && a.full_hash == b.full_hash && b.violation.as_ref().map(|v| v.signature()) == Some(sig.clone());
    if !ok {
        println!("note: minimised scenario did not replay identically; falling back to the original");
        min = f.sc.clone();
    }
    let a = run_scenario(&min, true);
    min.tape = Some(a.tape.clone());
    min.expect_signature = Some(sig);
    min.expect_log_hash = Some(format!("{:016x}", a.full_hash));
    let mut summary = a.summary.clone().unwrap_or(serde_json::Value::Null);
    if let Some(v) = &a.violation {
        if let serde_json::Value::Object(m) = &mut summary {
            m.insert("violation".into(), serde_json::to_value(v).unwrap());
        }
    }
    min.summary = Some(summary);
    let path = dir.join(format!("{}-{}-{}.json", prop, f.sc.seed, f.sc.type_index));
    std::fs::write(&path, serde_json::to_string_pretty(&min).unwrap()).expect("write replay");
    path.display().to_string()
}

pub fn replay_file(path: &str) -> i32 {
    let s = match std::fs::read_to_string(path) {
        Ok(s) => s,
        Err(e) => {
            eprintln!("harness error: cannot read {}: {}", path, e);
            return 2;
        }
    };
    let sc: Scenario = match serde_json::from_str(&s) {
        Ok(x) => x,
        Err(e) => {
            eprintln!("harness error: cannot parse {}: {}", path, e);
            return 2;
        }
    };
    // the same wall-clock watchdog as in a batch: a run that hung there hangs here
    {
        let prop = sc.property.clone();
        let (tn, wk, seed) = (sc.type_name.clone(), sc.world, sc.seed);
        let path = path.to_string();
        std::thread::spawn(move || {
            std::thread::sleep(std::time::Duration::from_secs(300));
            println!("run did not finish within 300 s of wall-clock time (type {} world {:?} seed {})", tn, wk, seed);
            println!("violation: [{}|wall-clock|hang:wall-clock|run]", prop);
            println!("VIOLATION property={} replay={}", prop, path);
            std::process::exit(1);
        });
    }
    let out = run_scenario(&sc, true);
    println!("replay {}: property={} world={:?} type={} log_hash={:016x}", path, sc.property, sc.world, sc.type_name, out.full_hash);
    if let Some(e) = &out.harness_error {
        eprintln!("harness error: {}", e);
        return 2;
    }
    if let Some(exp) = &sc.expect_log_hash {
        if *exp != format!("{:016x}", out.full_hash) {
            println!("note: event-log hash differs from the recorded one ({}): the code under test behaves differently now", exp);
        }
    }
    if std::env::var("FLATSIM_SHOW").is_ok() {
        if let Some(s) = &out.summary {
            println!("{}", serde_json::to_string_pretty(s).unwrap());
        }
    }
    match out.violation {
        Some(v) => {
            println!("violation: [{}] {}", v.signature(), v.detail);
            if let Some(exp) = &sc.expect_signature {
                if *exp != v.signature() {
                    println!("note: signature differs from the recorded one ({})", exp);
                }
            }
            println!("VIOLATION property={} replay={}", sc.property, path);
            1
        }
        None => {
            println!("no violation");
            0
        }
    }
}

/// Run one seeded scenario; if it violates, minimise it and write the replay file to `out`.
pub fn minimise_seed(prop: &str, world: &str, ty: usize, seed: u64, backend: &str, out: &str) -> i32 {
    let w = if world == "async" { WorldKind::Async } else { WorldKind::Blocking };
    let sc = base_scenario(prop, w, backend, ty, seed);
    let scs = if prop == "C06" { c06::expand(&sc) } else { vec![sc] };
    for sc in scs {
        let o = run_scenario(&sc, false);
        if let Some(v) = o.violation {
            let mut sc2 = sc.clone();
            sc2.tape = Some(o.tape.clone());
            let f = Found { job: 0, sc: sc2, v };
            let path = report_violation(prop, &f, &verif_dir());
            let _ = std::fs::copy(&path, out);
            println!("violation [{}] minimised -> {}", f.v.signature(), out);
            return 1;
        }
    }
    println!("no violation for this seed");
    0
}

/// Sequential mini-batch without worker threads or files: the entry point used under Miri
/// (`cargo +nightly miri run --no-default-features -- miri --property C10 --runs 40`), where
/// every run doubles as an undefined-behaviour check of the library code it drives.
pub fn run_sequential(prop: &str, runs: u64, seed: u64, backend: &str, first: u64) -> i32 {
    let mut n = 0u64;
    let mut nontrivial = 0u64;
    if std::env::var("FLATSIM_SEQ_SYS").is_ok() {
        let sys: Vec<Scenario> = match prop {
            "C09" => crate::c10::systematic_c09(backend, seed, "quick"),
            "C10" => crate::c10::systematic_c10(backend, seed, "quick"),
            _ => crate::c10::systematic_splits(prop, backend, seed, "quick"),
        };
        println!("{} systematic scenarios", sys.len());
        for (i, sc) in sys.iter().enumerate() {
            if (i as u64) < first {
                continue;
            }
            if std::env::var("FLATSIM_SEQ_VERBOSE").is_ok() {
                eprintln!("sys {} type={} aux={:?}", i, sc.type_name, sc.aux);
            }
            let out = run_scenario(sc, false);
            if let Some(v) = out.violation {
                println!("violation in systematic scenario {}: type={} aux={:?}: [{}] {}", i, sc.type_name, sc.aux, v.signature(), v.detail);
                return 1;
            }
        }
        println!("systematic layer clean");
        return 0;
    }
    for idx in first..first + runs {
        let tyname = type_name(job_type(idx));
        if cfg!(miri) && (tyname == "Fixed" || tyname == "FixedE" || tyname == "Entries") {
            continue;
        }
        for sc in seeded_job(prop, backend, seed, idx) {
            // sized structs/enums are emplaced with `ptr.write(value)`, which leaves their padding
            // bytes uninitialised; the harness reads frames byte-wise, so under Miri those two
            // zoo types are left out (see DESIGN §10)
            if cfg!(miri) && (sc.type_name == "Fixed" || sc.type_name == "FixedE" || sc.type_name == "Entries") {
                continue;
            }
            let out = run_scenario(&sc, false);
            n += 1;
            if out.nontrivial {
                nontrivial += 1;
            }
            if let Some(e) = out.harness_error {
                eprintln!("harness error: {}", e);
                return 2;
            }
            if let Some(v) = out.violation {
                println!("violation in job {} (world={:?} type={} seed={} aux={:?}): [{}] {}", idx, sc.world, sc.type_name, sc.seed, sc.aux, v.signature(), v.detail);
                println!("VIOLATION property={} replay=seed:{}", prop, sc.seed);
                return 1;
            }
        }
    }
    println!("sequential batch: property={} jobs {}..{} = {} runs ({} non-trivial), no violation", prop, first, first + runs, n, nontrivial);
    0
}

pub fn run_one_debug(prop: &str, world: &str, ty: usize, seed: u64, backend: &str) -> i32 {
    let w = if world == "async" { WorldKind::Async } else { WorldKind::Blocking };
    let sc = base_scenario(prop, w, backend, ty, seed);
    let scs = if prop == "C06" { c06::expand(&sc) } else { vec![sc] };
    let mut code = 0;
    for sc in scs {
        let out = run_scenario(&sc, true);
        println!("{}", serde_json::to_string_pretty(&out.summary).unwrap());
        println!("tape: {}", serde_json::to_string(&out.tape).unwrap());
        if let Some(v) = out.violation {
            println!("violation: [{}] {}", v.signature(), v.detail);
            code = 1;
        }
        if let Some(e) = out.harness_error {
            println!("harness error: {}", e);
            code = 2;
        }
    }
    code
}

// ---------------------------------------------------------------------------------------------
// evidence

#[allow(clippy::too_many_arguments)]
fn write_evidence(prop: &str, tier: &str, seed: u64, agg: &Agg, wall: f64, violations: i64, regress_runs: u64, systematic_runs: u64, vdir: &std::path::Path) {
    let level = match prop {
        "C06" | "C09" => "fault_enumeration",
        _ => "exploration",
    };
    let mut faults = serde_json::Map::new();
    let mut probes = serde_json::Map::new();
    let mut zero = Vec::new();
    let relevant = relevant_probes(prop);
    for (i, name) in PROBE_NAMES.iter().enumerate() {
        let n = agg.stats[i];
        let is_fault = name.starts_with("w_") || name.starts_with("r_") || name.starts_with("f_") || name.starts_with("data_");
        if is_fault {
            faults.insert(name.to_string(), n.into());
        } else {
            probes.insert(name.to_string(), n.into());
        }
        if n == 0 && relevant.contains(name) {
            zero.push(name.to_string());
        }
    }
    let per_type: serde_json::Map<String, serde_json::Value> = (0..N_TYPES).map(|i| (type_name(i).to_string(), agg.per_type[i].into())).collect();
    let rule = match prop {
        "C06" => "values are drawn by seed per message type; for each value EVERY cut position k in 0..size() (sender crash after k bytes) and EVERY suffix length j in 0..=2*ALIGN+8 of 4 suffix families (next valid message, zeros, 0xFF, seeded garbage) is one run, in the blocking and the async world, with 0-2 whole messages in front; a run is non-trivial when the receiver was driven over a non-empty stream; distinct = distinct event-log hashes (party, op, outcome, byte counts) per message type",
        "C07" => "one run = one seed: message type, 0-8 generated messages (all container fills, builder ops), max_msg_len of both ends, pipe capacity, write/read chunk sizes and the interleaving of the two blocking parties are all drawn from it; plus a systematic two-chunk split sweep; non-trivial = at least one message delivered; distinct = distinct event-log hashes (party, op, outcome kind, byte counts) per message type",
        "C08" => "one run = one seed: as C07 on the async world, plus placement of Poll::Pending on poll_read/poll_write/poll_flush with immediate or timer-delayed wake, poll order of the two tasks and spurious polls; non-trivial = at least one message delivered; distinct = distinct event-log hashes per message type",
        "C09" => "seeded layer: finite fault scripts (Ok(0), Err(kind) transient/persistent, read Err, EOF, flush Err/Pending) drawn by seed with swarm-selected kinds, placement biased to message boundaries; systematic layer: for every message type a fixed 3-message stream x EVERY pipe-call index x every fault kind as a single fault; non-trivial = a message was delivered or a fault fired; distinct = distinct event-log hashes per message type",
        _ => "one run = one hostile byte stream (seeded: random bytes, mutated valid stream, oversize length fields, differentially aimed invalid Bool/UTF-8 bytes in an otherwise framed stream) x a seeded read chunking (1-byte reads over-weighted); systematic layer: valid stream truncated at EVERY position; non-trivial = the receiver consumed at least one byte; distinct = distinct event-log hashes per message type",
    };
    let ev = serde_json::json!({
        "property_id": prop,
        "tier": if tier == "thorough" { "thorough" } else { "quick" },
        "seed": seed,
        "level": level,
        "coverage": {
            "evaluations": agg.evaluations,
            "distinct_nontrivial": agg.distinct.len(),
            "rule": rule,
            "samples": agg.samples.iter().take(3).collect::<Vec<_>>(),
            "exhaustive": false,
            "nontrivial_runs": agg.nontrivial,
            "distinct_interleaving_shapes": agg.shapes.len(),
            "distinct_states": agg.states.len(),
            "distinct_states_measure": "(window.start, window.end, bytes in pipe, sends so far, recvs so far, poisoned) after each library call",
            "simulated_ticks": agg.ticks,
            "runs_per_hour": (agg.evaluations as f64 / wall.max(1e-9) * 3600.0) as u64,
            "seeds_per_hour": (agg.evaluations as f64 / wall.max(1e-9) * 3600.0) as u64,
            "runs_blocking_world": agg.per_world[0],
            "runs_async_world": agg.per_world[1],
            "runs_per_message_type": per_type,
            "regression_scenarios_replayed": regress_runs,
            "thread_backend_crosscheck_runs": std::env::var("FLATSIM_CROSSCHECK_RUNS").ok().and_then(|s| s.parse::<u64>().ok()).unwrap_or(0),
            "miri_tier_runs": std::env::var("FLATSIM_MIRI_RUNS").ok().and_then(|s| s.parse::<u64>().ok()).unwrap_or(0),
            "systematic_layer_runs": systematic_runs,
            "faults_fired": faults,
            "probes": probes,
            "probes_at_zero": zero,
            "components": {
                "real_code": ["flatty (base, containers, portable, macros-expanded zoo types)", "flatty-io Sender/Receiver/AsyncSender/AsyncReceiver", "flatty-io IoBuffer (WriteBuffer/ReadBuffer/AsyncWriteBuffer/AsyncReadBuffer)", "stavec"],
                "stubbed": ["byte pipe (std::io::Read/Write, futures AsyncRead/AsyncWrite)", "scheduler / executor / wakers / timer heap", "producer and consumer application code (zoo adapters)"],
                "oracle_inputs": ["sender-side frame records (bytes + deep read of the value held at send())", "pipe-side counters", "verif hook: IoBuffer window/poisoned (read-only)"]
            }
        },
        "assumptions": [
            "the pipe honours the Read/Write contracts (never returns more than the buffer length; an ordered reliable byte stream unless a fault is injected)",
            "zoo adapters (value -> emplacer, deep read) are trusted and self-tested; 16 message types stand for 'every message type'",
            "sampling: a clean batch is evidence, not proof",
            "little-endian 64-bit host only"
        ],
        "wall_s": wall,
        "violations": violations,
    });
    // FLATSIM_EVIDENCE_DIR: debugging runs (e.g. against a patched tree) must not overwrite the
    // committed evidence
    let dir = match std::env::var("FLATSIM_EVIDENCE_DIR") {
        Ok(d) => std::path::PathBuf::from(d),
        Err(_) => vdir.join("evidence"),
    };
    let _ = std::fs::create_dir_all(&dir);
    let path = dir.join(format!("{}.json", prop));
    if let Err(e) = std::fs::write(&path, serde_json::to_string_pretty(&ev).unwrap()) {
        eprintln!("harness error: cannot write {}: {}", path.display(), e);
    }
}

fn relevant_probes(prop: &str) -> Vec<&'static str> {
    let common = vec!["msgs_delivered", "closed_returned", "validate_with_start_gt0", "make_contiguous_ran", "msg_with_trailing_padding", "read_ended_in_trailing_padding", "r_short", "r_one_byte"];
    let mut v = common;
    match prop {
        "C07" => v.extend(["w_short", "two_msgs_coalesced_in_one_read", "read_ended_in_header", "msg_at_max_len", "tweaks_applied", "retained_guard", "sched_switch", "pipe_full_block", "pipe_empty_block"]),
        "C08" => v.extend(["w_short", "w_pending", "w_pending_delayed", "r_pending", "r_pending_delayed", "f_pending", "spurious_poll", "delayed_wake_fired", "two_msgs_coalesced_in_one_read", "pipe_full_block", "pipe_empty_block"]),
        "C09" => v.extend([
            "w_zero_at0", "w_zero_mid", "w_err_at0", "w_err_mid", "w_err_interrupted", "w_err_persistent", "w_peer_gone", "r_err", "r_err_interrupted", "r_err_persistent", "r_eof_mid", "r_eof_boundary", "f_err",
            "poisoned_set", "recv_retried_after_err", "send_retried_after_err_at0", "send_on_poisoned_refused",
        ]),
        "C10" => v.extend(["data_bitflip", "data_overwrite", "data_truncate", "data_garbage", "data_header_aim", "data_framed_corruption", "parse_err_returned", "oom_returned", "aim_confirmed", "hostile_guard_handed_out"]),
        "C06" => v.extend(["prefix_accepted_padding_exception", "r_eof_mid", "r_eof_boundary"]),
        _ => {}
    }
    v
}

// ---------------------------------------------------------------------------------------------
// self-tests

fn selftest_zoo_quiet() -> Result<(), String> {
    for ty in 0..N_TYPES {
        let r = {
            use crate::c06::zoo_roundtrip;
            with_zoo_type!(ty, zoo_roundtrip, 40)
        };
        r.map_err(|e| format!("{}: {}", type_name(ty), e))?;
    }
    Ok(())
}

pub fn selftest_zoo() -> i32 {
    match selftest_zoo_quiet() {
        Ok(()) => {
            println!("zoo self-test ok ({} types)", N_TYPES);
            0
        }
        Err(e) => {
            eprintln!("harness error: zoo self-test: {}", e);
            2
        }
    }
}

/// Determinism: every seed is run twice in-process per back-end; event-log hashes, verdicts and
/// recorded tapes must agree, and the tape-driven replay must reproduce the PRNG-driven run.
/// The per-seed hashes are printed so that separate processes / worker counts can be diffed.
pub fn selftest_determinism(seeds: u64) -> i32 {
    let mut bad = 0;
    let mut lines = Vec::new();
    for prop in ["C06", "C07", "C08", "C09", "C10"] {
        for idx in 0..seeds {
            for sc in seeded_job(prop, "coro", DEFAULT_SEED, idx).into_iter().take(6) {
                let a = run_scenario(&sc, false);
                let b = run_scenario(&sc, false);
                let mut sc_t = sc.clone();
                sc_t.tape = Some(a.tape.clone());
                let c = run_scenario(&sc_t, false);
                let sig = |o: &RunOutput| o.violation.as_ref().map(|v| v.signature());
                let mut ok = a.full_hash == b.full_hash && a.tape == b.tape && sig(&a) == sig(&b) && a.full_hash == c.full_hash && sig(&a) == sig(&c) && a.tape == c.tape;
                if sc.world == WorldKind::Blocking && (prop == "C07" || prop == "C09") && idx % 8 == 0 {
                    let mut sc_th = sc.clone();
                    sc_th.backend = "threads".into();
                    let d = run_scenario(&sc_th, false);
                    ok = ok && d.full_hash == a.full_hash && sig(&d) == sig(&a);
                }
                if !ok {
                    bad += 1;
                    eprintln!("non-deterministic: {} world={:?} type={} seed={} aux={:?}", prop, sc.world, sc.type_name, sc.seed, sc.aux);
                }
                lines.push(format!("{} {:?} {} {} {:016x} {:?}", prop, sc.world, sc.type_index, sc.seed, a.full_hash, sig(&a)));
            }
        }
    }
    let mut h = crate::tape::Fnv::default();
    for l in &lines {
        h.bytes(l.as_bytes());
    }
    if std::env::var("FLATSIM_DUMP_HASHES").is_ok() {
        for l in &lines {
            println!("{}", l);
        }
    }
    println!("determinism self-test: {} runs, {} mismatches, digest {:016x}", lines.len(), bad, h.0);
    if bad > 0 {
        2
    } else {
        0
    }
}
