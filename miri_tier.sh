#!/bin/bash
# Miri tier: a slice of the C06 / C10 seeded jobs (pre-loaded stream, receiver only, direct
# back-end: no coroutines, no threads) executed under `cargo +nightly miri`, so that an
# out-of-bounds or uninitialised access inside validation / the receiver driven by cut or hostile
# bytes is an error even when it does not crash natively.
#   ./miri_tier.sh <C06|C10> <processes> <jobs per process> [first job]
# Stacked Borrows is off (flatty's DST casts create references larger than the slice they come
# from – C04 territory, not a statement of C06/C10); see DESIGN §10.
# exit 0 = clean, 1 = VIOLATION line printed, 3 = Miri not available (tier skipped)
set -u
cd "$(dirname "$0")"
PROP="$1"; PROCS="${2:-8}"; JOBS="${3:-20}"; FIRST="${4:-0}"
export CARGO_NET_OFFLINE=true CARGO_TARGET_DIR="$(pwd)/target/miri"
export MIRIFLAGS="-Zmiri-disable-isolation"
cargo +nightly miri --version >/dev/null 2>&1 || { echo "miri tier: cargo +nightly miri not available, skipped"; exit 3; }
cd flatsim
# warm-up (build once)
cargo +nightly miri run --no-default-features --offline -- miri --property "$PROP" --runs 0 >/dev/null 2>../target/miri-build.log || { echo "miri tier: build failed (target/miri-build.log), skipped"; exit 3; }
mkdir -p ../replays
pids=(); outs=()
for ((p=0; p<PROCS; p++)); do
  first=$((FIRST + p*JOBS)); out="../target/miri-$PROP-$p.log"
  cargo +nightly miri run --no-default-features --offline -- miri --property "$PROP" --runs "$JOBS" --first "$first" >"$out" 2>&1 &
  pids+=($!); outs+=("$out:$first")
done
rc=0; total=0
for i in "${!pids[@]}"; do
  out="${outs[$i]%%:*}"; first="${outs[$i]##*:}"
  if wait "${pids[$i]}"; then
    n=$(grep -o '= [0-9]* runs' "$out" | grep -o '[0-9]*' | head -1); total=$((total + ${n:-0}))
  else
    rc=1
    f="$(cd ..; pwd)/replays/$PROP-miri-$first.json"
    printf '{"miri": true, "property": "%s", "first": %s, "runs": %s}\n' "$PROP" "$first" "$JOBS" > "$f"
    echo "miri tier: jobs $first..$((first+JOBS)) failed:"; grep -v '^warning' "$out" | grep -A12 'error: Undefined\|^violation\|panicked' | head -30
    echo "VIOLATION property=$PROP replay=$f"
  fi
done
[ $rc = 0 ] && echo "miri tier: property=$PROP $total runs under Miri in $PROCS processes, no undefined behaviour, no violation"
echo "$total" > "../target/miri-$PROP.count"
exit $rc
