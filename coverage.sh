#!/bin/bash
# Reach measurement: which regions of the library are executed by the simulated runs.
# Builds flatsim with `-C instrument-coverage` on the nightly toolchain (its llvm-tools match),
# runs a slice of every check, and prints the llvm-cov report for /repo's sources.
#   ./coverage.sh [scale]         (default 0.1 of the quick tier)
set -u
cd "$(dirname "$0")"; mkdir -p reach
SCALE="${1:-0.1}"
B="$(dirname "$(rustup +nightly which rustc)")/../lib/rustlib/x86_64-unknown-linux-gnu/bin"
[ -x "$B/llvm-cov" ] || { echo "llvm-tools of the nightly toolchain not found"; exit 3; }
T="${COV_SCRATCH:-/tmp/flatsim-cov}"; rm -rf "$T"; mkdir -p "$T"
( cd flatsim && LLVM_PROFILE_FILE="$T/build-%p.profraw" RUSTFLAGS="-C instrument-coverage" CARGO_TARGET_DIR="$T/target" cargo +nightly build --release --offline >"$T/build.log" 2>&1 ) || { tail -20 "$T/build.log"; exit 2; }
for p in C06 C07 C08 C09 C10; do
  LLVM_PROFILE_FILE="$T/$p-%p.profraw" FLATSIM_VERIF_DIR="$T/vdir" "$T/target/release/flatsim" run --property $p --tier quick --scale "$SCALE" --workers 8 2>&1 | tail -1 | cut -c1-110
done
rm -f "$T"/build-*.profraw; "$B/llvm-profdata" merge -sparse "$T"/*.profraw -o "$T/all.profdata"
"$B/llvm-cov" report "$T/target/release/flatsim" -instr-profile="$T/all.profdata" --ignore-filename-regex='(registry|rustc|rustup|verif)' 2>/dev/null | awk '{printf "%-34s %8s %8s %9s %6s %6s %9s\n", $1, $2, $3, $4, $5, $6, $7}' | sed 's#^repo/##' | tee reach/coverage.txt
if [ "${COV_SHOW:-}" != "" ]; then "$B/llvm-cov" show "$T/target/release/flatsim" -instr-profile="$T/all.profdata" "/repo/$COV_SHOW" 2>/dev/null | grep -E "^\s+[0-9]+\|\s+0\|"; fi
rm -rf "$T"
